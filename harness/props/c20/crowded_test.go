package c20

import (
	"bytes"
	"context"
	"crypto/sha256"
	"encoding/binary"
	"errors"
	"fmt"
	"runtime"
	"sort"
	"strings"
	"sync"
	"sync/atomic"
	"syscall"
	"time"

	coreda "github.com/evstack/ev-node/core/da"
	coresequencer "github.com/evstack/ev-node/core/sequencer"
	"github.com/evstack/ev-node/sequencers/based"

	"verif/harness/vf"
	"verif/harness/world"
)

// Part 2 — crowded DA heights: heights that hold more transactions than one retrieval batch of
// types.RetrieveWithHelpers (the helper through which GetNextBatch reads every DA height: one listing call, then the
// blobs in chunks of b ids). Part 1 never puts more than three transactions into one height, so everything behind the
// first chunk was out of reach. Here one or two heights hold N transactions for N around every multiple of the
// MEASURED chunk size b, alone and between small heights, with size limits that cut such a height into carry-overs
// at, before and behind the chunk borders, with one retrieval error at EVERY DA operation (listing call or any chunk)
// and one restart at EVERY call boundary of every such run. The oracle is the one of part 1 (released sequence =
// prefix of the flat DA order: no duplicate, no omission, no overtaking, answers within the limit, restart gives the
// same answers) plus: the BatchData id that accompanies a released transaction is that transaction's DA id.

// ---------------------------------------------------------------------------------------------------------------
// contents

type bigTx struct {
	h, pos int
	data   []byte
	id     []byte
}

func (t bigTx) String() string { return fmt.Sprintf("h%d#%d/%dB", t.h, t.pos, len(t.data)) }

type bigContent struct {
	rows  []int // rows[h-1] = number of transactions at DA height h
	pat   int   // 0: every transaction 4 bytes; 1: sizes 3..7 cycling with the position
	flat  []bigTx
	byTx  map[string]int
	start []int // start[h] = flat index of the first transaction of height h (1-based; start[H+1] = len(flat))
	total uint64
}

func bigUnit(pat int) uint64 {
	if pat == 0 {
		return 4
	}
	return 7
}

func mkBigContent(rows []int, pat int) *bigContent {
	c := &bigContent{rows: rows, pat: pat, byTx: map[string]int{}, start: make([]int, len(rows)+2)}
	for hi, n := range rows {
		h := hi + 1
		c.start[h] = len(c.flat)
		for pos := 0; pos < n; pos++ {
			sz := 4
			if pat == 1 {
				sz = 3 + (pos*3+h)%5
			}
			data := make([]byte, sz)
			data[0] = byte(h)
			data[1] = byte(pos >> 8)
			data[2] = byte(pos) // (height, position) is readable from the payload: order is observable
			for k := 3; k < sz; k++ {
				data[k] = byte(0xA0 + k)
			}
			sum := sha256.Sum256(data)
			id := make([]byte, 8+len(sum))
			binary.LittleEndian.PutUint64(id, uint64(h)) // id layout of core/da DummyDA: coreda.SplitID works
			copy(id[8:], sum[:])
			c.byTx[string(data)] = len(c.flat)
			c.flat = append(c.flat, bigTx{h: h, pos: pos, data: data, id: id})
			c.total += uint64(sz)
		}
	}
	c.start[len(rows)+1] = len(c.flat)
	return c
}

func (c *bigContent) heights() int { return len(c.rows) }

func (c *bigContent) names(idxs []int) string {
	if len(idxs) == 0 {
		return "[]"
	}
	// runs of consecutive flat indices are printed as ranges
	var sb strings.Builder
	sb.WriteByte('[')
	name := func(i int) string {
		if i < 0 {
			return "?"
		}
		return fmt.Sprintf("h%d#%d", c.flat[i].h, c.flat[i].pos)
	}
	for k := 0; k < len(idxs); {
		j := k
		for j+1 < len(idxs) && idxs[j] >= 0 && idxs[j+1] == idxs[j]+1 {
			j++
		}
		if sb.Len() > 1 {
			sb.WriteByte(' ')
		}
		if j == k {
			sb.WriteString(name(idxs[k]))
		} else {
			sb.WriteString(name(idxs[k]) + ".." + name(idxs[j]))
		}
		k = j + 1
	}
	sb.WriteByte(']')
	return sb.String()
}

// ---------------------------------------------------------------------------------------------------------------
// DA double of part 2: like daDouble, plus a fault on the q-th DA operation (listing call or blob-fetch call) and a
// log of the blob-fetch calls (the retrieval batch size is measured from it).

type bigDA struct {
	c        *bigContent
	tip      int
	ops      int    // DA operations so far: GetIDs and Get calls
	failAt   int    // the failAt-th operation fails (0 = never)
	injected bool   // a failure was injected during the current GetNextBatch call
	served   []bool // blob handed to the caller by a successful Get
	getLens  []int  // number of ids of every Get call
	maxGets  int    // most Get calls that followed one listing call
	curGets  int
	future   []bool // future[h]: height h was answered "from the future" at least once
}

var _ coreda.DA = (*bigDA)(nil)

func (d *bigDA) GetIDs(ctx context.Context, height uint64, ns []byte) (*coreda.GetIDsResult, error) {
	d.ops++
	d.curGets = 0
	if d.ops == d.failAt {
		d.injected = true
		return nil, errors.New("injected retrieval failure (listing call)")
	}
	if height > uint64(d.tip) {
		if int(height) < len(d.future) {
			d.future[height] = true
		}
		return nil, fmt.Errorf("%w: requested %d, current %d", coreda.ErrHeightFromFuture, height, d.tip)
	}
	if height == 0 || int(height) > d.c.heights() || d.c.rows[height-1] == 0 {
		return &coreda.GetIDsResult{IDs: []coreda.ID{}, Timestamp: daTime(height)}, nil
	}
	lo, hi := d.c.start[height], d.c.start[height+1]
	ids := make([]coreda.ID, 0, hi-lo)
	for i := lo; i < hi; i++ {
		ids = append(ids, append([]byte(nil), d.c.flat[i].id...))
	}
	return &coreda.GetIDsResult{IDs: ids, Timestamp: daTime(height)}, nil
}

func (d *bigDA) Get(ctx context.Context, ids []coreda.ID, ns []byte) ([]coreda.Blob, error) {
	d.ops++
	d.curGets++
	if d.curGets > d.maxGets {
		d.maxGets = d.curGets
	}
	d.getLens = append(d.getLens, len(ids))
	if d.ops == d.failAt {
		d.injected = true
		return nil, errors.New("injected retrieval failure (blob fetch)")
	}
	out := make([]coreda.Blob, 0, len(ids))
	var hit []int
	for _, id := range ids {
		if len(id) < 8 {
			return nil, coreda.ErrBlobNotFound
		}
		h := int(binary.LittleEndian.Uint64(id))
		found := -1
		if h >= 1 && h <= d.c.heights() {
			for i := d.c.start[h]; i < d.c.start[h+1]; i++ {
				if bytes.Equal(d.c.flat[i].id, id) {
					found = i
					break
				}
			}
		}
		if found < 0 {
			return nil, coreda.ErrBlobNotFound
		}
		hit = append(hit, found)
		out = append(out, append([]byte(nil), d.c.flat[found].data...))
	}
	for _, i := range hit {
		d.served[i] = true
	}
	return out, nil
}

func (d *bigDA) GetProofs(ctx context.Context, ids []coreda.ID, ns []byte) ([]coreda.Proof, error) {
	return nil, errors.New("not used")
}
func (d *bigDA) Commit(ctx context.Context, blobs []coreda.Blob, ns []byte) ([]coreda.Commitment, error) {
	return nil, errors.New("not used")
}
func (d *bigDA) Submit(ctx context.Context, blobs []coreda.Blob, gp float64, ns []byte) ([]coreda.ID, error) {
	return nil, errors.New("not used")
}
func (d *bigDA) SubmitWithOptions(ctx context.Context, blobs []coreda.Blob, gp float64, ns []byte, o []byte) ([]coreda.ID, error) {
	return nil, errors.New("not used")
}
func (d *bigDA) Validate(ctx context.Context, ids []coreda.ID, proofs []coreda.Proof, ns []byte) ([]bool, error) {
	return nil, errors.New("not used")
}
func (d *bigDA) GasPrice(ctx context.Context) (float64, error)      { return 1, nil }
func (d *bigDA) GasMultiplier(ctx context.Context) (float64, error) { return 1, nil }

// ---------------------------------------------------------------------------------------------------------------
// configuration, instance

type bigSpec struct {
	Rows    []int  `json:"rows"`    // transactions per DA height
	Pattern int    `json:"pattern"` // 0 = all 4 bytes, 1 = 3..7 bytes cycling
	Limit   uint64 `json:"limit"`   // MaxBytes (0 = default)
	Drift   uint64 `json:"drift"`
	Grow    bool   `json:"grow"`    // false: all heights visible from the start; true: tip starts at 1, +1 after every call that brought nothing new
	FailOp  int    `json:"fail_op"` // the FailOp-th DA operation of the run fails (0 = none)
	Restart int    `json:"restart"` // restart before call number Restart (0-based; <= 0: none)
}

type bigConfig struct {
	c     *bigContent
	limit uint64
	drift uint64
	grow  bool
	b     int // measured retrieval batch size (for tags only)
}

func (cf *bigConfig) effLimit() uint64 {
	if cf.limit == 0 {
		return based.DefaultMaxBlobSize
	}
	return cf.limit
}

func (cf *bigConfig) String() string {
	l := fmt.Sprint(cf.limit)
	if cf.limit == 0 {
		l = "0(default)"
	}
	tip := "all heights visible from the start"
	if cf.grow {
		tip = "tip starts at 1 and grows by one after every call that brought nothing new"
	}
	sz := "every transaction 4 bytes"
	if cf.c.pat == 1 {
		sz = "transaction sizes 3..7 bytes cycling"
	}
	return fmt.Sprintf("DA transactions per height %v (%s); MaxBytes=%s; maxHeightDrift=%d; DA start height 1; %s", cf.c.rows, sz, l, cf.drift, tip)
}

type bigInst struct {
	cf     *bigConfig
	kv     *world.KV
	da     *bigDA
	seq    *based.Sequencer
	cursor [][]byte
	engErr string
}

func newBigInst(cf *bigConfig, failAt int) *bigInst {
	tip := cf.c.heights()
	if cf.grow {
		tip = 1
	}
	in := &bigInst{cf: cf, kv: world.NewKV(nil)}
	in.da = &bigDA{c: cf.c, tip: tip, failAt: failAt, served: make([]bool, len(cf.c.flat)), future: make([]bool, cf.c.heights()+2)}
	in.open()
	return in
}

func (in *bigInst) open() {
	seq, err := based.NewSequencer(logger, in.da, []byte(chainID), 1, in.cf.drift, in.kv)
	if err != nil {
		in.engErr = "NewSequencer: " + err.Error()
		return
	}
	in.seq = seq
}

// restarted: a new process on the datastore image of `in`; the DA (same layer, same fault counter) and the caller's
// cursor are carried over. The copy of the oracle-side bookkeeping (served, future) is made by the caller if it keeps
// the fork.
func (in *bigInst) restarted() *bigInst {
	f := &bigInst{cf: in.cf, kv: world.NewKV(in.kv.Image()), cursor: in.cursor}
	d := *in.da
	d.getLens = nil
	f.da = &d
	f.open()
	return f
}

func sameQueue(x, y *bigInst) bool {
	p, q := x.seq.VerifPendingView(), y.seq.VerifPendingView() // read only
	if len(p) != len(q) {
		return false
	}
	eq := func(u, v [][]byte) bool {
		if len(u) != len(v) {
			return false
		}
		for k := range u {
			if !bytes.Equal(u[k], v[k]) {
				return false
			}
		}
		return true
	}
	for g := range p {
		if !eq(p[g].Txs, q[g].Txs) || !eq(p[g].IDs, q[g].IDs) {
			return false
		}
	}
	return true
}

type bigAnswer struct {
	idxs    []int
	size    uint64
	nilResp bool
	idsBad  string // "" or what is wrong with BatchData
}

func (in *bigInst) next() bigAnswer {
	in.da.injected = false
	resp, err := in.seq.GetNextBatch(context.Background(), coresequencer.GetNextBatchRequest{
		Id: []byte(chainID), LastBatchData: in.cursor, MaxBytes: in.cf.limit,
	})
	var a bigAnswer
	if err != nil {
		if !in.da.injected {
			in.engErr = "GetNextBatch returned an error although no retrieval failure was injected: " + err.Error()
			return a
		}
		a.nilResp = true
		return a
	}
	if resp == nil || resp.Batch == nil {
		a.nilResp = true
		return a
	}
	c := in.cf.c
	for k, tx := range resp.Batch.Transactions {
		i, ok := c.byTx[string(tx)]
		if !ok {
			i = -1
		}
		a.idxs = append(a.idxs, i)
		a.size += uint64(len(tx))
		if a.idsBad == "" && i >= 0 {
			if k >= len(resp.BatchData) {
				a.idsBad = fmt.Sprintf("answer has %d transactions and %d BatchData ids", len(resp.Batch.Transactions), len(resp.BatchData))
			} else if !bytes.Equal(resp.BatchData[k], c.flat[i].id) {
				who := "an id that is not on the DA layer"
				for j := range c.flat {
					if bytes.Equal(c.flat[j].id, resp.BatchData[k]) {
						who = "the DA id of " + c.flat[j].String()
					}
				}
				a.idsBad = fmt.Sprintf("transaction %d of the answer is %s, BatchData[%d] is %s", k, c.flat[i], k, who)
			}
		}
	}
	if a.idsBad == "" && len(resp.BatchData) != len(resp.Batch.Transactions) {
		a.idsBad = fmt.Sprintf("answer has %d transactions and %d BatchData ids", len(resp.Batch.Transactions), len(resp.BatchData))
	}
	in.cursor = resp.BatchData
	return a
}

// ---------------------------------------------------------------------------------------------------------------
// oracle (same clauses as part 1, on slices instead of 32-bit sets)

const clIDs = nClauses // extra clause of part 2

func bigClauseName(cl int) string {
	if cl == clIDs {
		return "batch-data-ids"
	}
	return clauseName[cl]
}

type bigOracle struct {
	cf       *bigConfig
	released []bool
	skipped  []bool
	nRel     int
	maxRel   int
	low      int // smallest flat index that is neither released nor reported as jumped over
	fired    uint32
}

func newBigOracle(cf *bigConfig) *bigOracle {
	n := len(cf.c.flat)
	return &bigOracle{cf: cf, released: make([]bool, n), skipped: make([]bool, n), maxRel: -1}
}

func (o *bigOracle) clone() *bigOracle {
	p := *o
	p.released = append([]bool(nil), o.released...)
	p.skipped = append([]bool(nil), o.skipped...)
	return &p
}

// txTags: history features tied to the transaction a violation is about.
func (o *bigOracle) txTags(da *bigDA, i int) []string {
	c := o.cf.c
	t := []string{"crowded-height-part"}
	h := c.flat[i].h
	if o.cf.b > 0 && c.rows[h-1] > o.cf.b {
		t = append(t, "height-exceeds-one-retrieval-batch") // this transaction's height
		if c.flat[i].pos >= o.cf.b {
			t = append(t, "tx-behind-first-retrieval-batch")
		}
	}
	if da.future[h] {
		t = append(t, "scan-hit-future-height")
	}
	return t
}

func (o *bigOracle) observe(da *bigDA, a bigAnswer) []finding {
	c := o.cf.c
	var out []finding
	lim := o.cf.effLimit()
	if a.size > lim {
		out = append(out, finding{clSize, []string{"crowded-height-part"}, fmt.Sprintf("answer %s has %d bytes, limit %d", c.names(a.idxs), a.size, lim)})
	}
	if a.idsBad != "" {
		out = append(out, finding{clIDs, []string{"crowded-height-part"}, a.idsBad + " (answer " + c.names(a.idxs) + ")"})
	}
	for _, i := range a.idxs {
		if i < 0 {
			out = append(out, finding{clUnknown, []string{"crowded-height-part"}, "answer contains a transaction that is not on the DA layer"})
			continue
		}
		if o.released[i] {
			out = append(out, finding{clDup, o.txTags(da, i), fmt.Sprintf("%s released a second time (answer %s)", c.flat[i], c.names(a.idxs))})
			continue
		}
		if i < o.maxRel {
			out = append(out, finding{clOrder, o.txTags(da, i), fmt.Sprintf("%s released after the later %s (answer %s)", c.flat[i], c.flat[o.maxRel], c.names(a.idxs))})
		}
		for o.low < len(c.flat) && (o.released[o.low] || o.skipped[o.low]) {
			o.low++
		}
		if o.low < i {
			j := o.low
			for k := j; k < i; k++ {
				if !o.released[k] {
					o.skipped[k] = true
				}
			}
			if da.served[j] {
				out = append(out, finding{clCarry, o.txTags(da, j), fmt.Sprintf("%s was handed to the sequencer, was not released, and %s was released before it (answer %s)", c.flat[j], c.flat[i], c.names(a.idxs))})
			} else {
				out = append(out, finding{clOmission, o.txTags(da, j), fmt.Sprintf("%s (visible, its blob never fetched) was jumped over: %s released before it (answer %s)", c.flat[j], c.flat[i], c.names(a.idxs))})
			}
		}
		o.released[i] = true
		o.nRel++
		if i > o.maxRel {
			o.maxRel = i
		}
	}
	return out
}

// atEnd: the run has ended (tip at the last height, no fault pending, H+2 calls in a row brought nothing new).
// Every transaction must have been released, unless the first missing one is larger than the limit and nothing
// overtook it (stuck: allowed, see part 1).
func (o *bigOracle) atEnd(da *bigDA, calls, idle int) []finding {
	c := o.cf.c
	first := -1
	missing := 0
	for i := range c.flat {
		if !o.released[i] {
			if first < 0 {
				first = i
			}
			missing++
		}
	}
	if first < 0 {
		return nil
	}
	if o.maxRel < first && uint64(len(c.flat[first].data)) > o.cf.effLimit() {
		return nil
	}
	msg := fmt.Sprintf("after %d calls (the last %d brought nothing new; tip at the last height, no error pending) %d transactions are still unreleased, the first is %s", calls, idle, missing, c.flat[first])
	if da.served[first] {
		return []finding{{clCarry, o.txTags(da, first), msg + "; it had been handed to the sequencer (dropped carry-over)"}}
	}
	return []finding{{clOmission, o.txTags(da, first), msg + "; its blob was never fetched"}}
}

// ---------------------------------------------------------------------------------------------------------------
// one run: calls until nothing new comes; one optional DA fault; restart forks at call boundaries

type bigFinding struct {
	finding
	restart int // 0 = in the run itself; r > 0 = in the continuation restarted before call r
}

type bigRun struct {
	findings []bigFinding
	engErr   string
	calls    int
	ops      int
	merged   int // restart positions whose restarted sequencer equals the live one (same futures)
	diverged int // restart positions continued separately until the end
	dropped  int // restart positions not continued because too many diverged continuations were alive
	nilNil   int
	pattern  string
	trace    []string
	capped   bool
	getLens  []int
	maxGets  int
}

type bigFork struct {
	at      int
	in      *bigInst
	o       *bigOracle
	differs bool
}

const maxLiveForks = 6

// forkAt: -1 = no restart, 0 = a restart fork before every call (except the first), r > 0 = before call r only.
func runBig(cf *bigConfig, failAt, forkAt int, wantTrace bool) bigRun {
	var res bigRun
	H := cf.c.heights()
	main := newBigInst(cf, failAt)
	if main.engErr != "" {
		res.engErr = main.engErr
		return res
	}
	o := newBigOracle(cf)
	var forks []*bigFork
	var pat strings.Builder
	add := func(at int, fo *bigOracle, fs []finding) {
		for _, f := range fs {
			if fo.fired&(1<<f.clause) != 0 {
				continue
			}
			fo.fired |= 1 << f.clause
			if at > 0 {
				f.tags = append(append([]string(nil), f.tags...), "after-restart")
			}
			if failAt > 0 {
				f.tags = append(append([]string(nil), f.tags...), "retrieval-error-injected")
			}
			res.findings = append(res.findings, bigFinding{f, at})
		}
	}
	idle := 0
	capCalls := len(cf.c.flat) + 4*(H+3) + 8
	for {
		if res.calls >= capCalls {
			res.capped = true
			break
		}
		if res.calls > 0 && (forkAt == 0 || forkAt == res.calls) {
			f := main.restarted()
			if f.engErr != "" {
				res.engErr = f.engErr
				return res
			}
			switch {
			case sameQueue(f, main):
				res.merged++
			case len(forks) >= maxLiveForks:
				res.dropped++
			default:
				res.diverged++
				f.da.served = append([]bool(nil), main.da.served...)
				f.da.future = append([]bool(nil), main.da.future...)
				forks = append(forks, &bigFork{at: res.calls, in: f, o: o.clone()})
				if wantTrace {
					res.trace = append(res.trace, fmt.Sprintf("[restart before call %d: the restarted sequencer's carry-over queue differs from the live one; continued separately]", res.calls))
				}
			}
		}
		ans := main.next()
		if main.engErr != "" {
			res.engErr = main.engErr
			return res
		}
		res.calls++
		if ans.nilResp {
			res.nilNil++
		}
		before := o.nRel
		add(0, o, o.observe(main.da, ans))
		if wantTrace {
			ev := "next→" + cf.c.names(ans.idxs)
			if main.da.injected {
				ev += "(retrieval error injected)"
			}
			res.trace = append(res.trace, ev)
		}
		fmt.Fprintf(&pat, "%d.", len(ans.idxs))
		for _, fk := range forks {
			fa := fk.in.next()
			if fk.in.engErr != "" {
				res.engErr = fk.in.engErr
				return res
			}
			fs := fk.o.observe(fk.in.da, fa)
			if !equalInts(fa.idxs, ans.idxs) {
				fs = append(fs, finding{clRestart, []string{"crowded-height-part"}, fmt.Sprintf("call %d answers %s after a restart before call %d; without the restart it answers %s", res.calls-1, cf.c.names(fa.idxs), fk.at, cf.c.names(ans.idxs))})
			}
			add(fk.at, fk.o, fs)
		}
		if o.nRel > before {
			idle = 0
		} else {
			idle++
			if main.da.tip < H {
				main.da.tip++
				for _, fk := range forks {
					fk.in.da.tip = main.da.tip
				}
				idle = 0
				pat.WriteByte('g')
				if wantTrace {
					res.trace = append(res.trace, fmt.Sprintf("tip→%d", main.da.tip))
				}
			}
		}
		if main.da.tip == H && idle >= H+2 && (failAt == 0 || main.da.ops >= failAt) {
			break
		}
	}
	if !res.capped {
		add(0, o, o.atEnd(main.da, res.calls, idle))
		for _, fk := range forks {
			add(fk.at, fk.o, fk.o.atEnd(fk.in.da, res.calls, idle))
		}
	}
	res.ops = main.da.ops
	res.pattern = pat.String()
	res.getLens = main.da.getLens
	res.maxGets = main.da.maxGets
	return res
}

// ---------------------------------------------------------------------------------------------------------------
// the sweep

type bigStats struct {
	b            int
	bHow         string
	configs      int
	runs         int64
	calls        int64
	faultRuns    int64
	merged       int64
	diverged     int64
	dropped      int64
	cappedRuns   int64
	nilNil       int64
	maxGets      int
	maxCalls     int
	maxN         int
	ns           []int
	ks           []string
	shapes       []string
	drifts       []uint64
	caps         []string
	byClass      map[string]int64
	patterns     map[string]bool
	configsDone  int64
	configsTotal int
	wall         time.Duration
	cpu          time.Duration // user+system CPU time of the process spent during part 2
}

const nominalBatch = 100 // types.RetrieveWithHelpers; used only if the measurement finds no chunk border

// best: clause|tags -> smallest cost reported with full text by this worker (every worker's first report of a class
// carries the text, so whichever reaches the run first is complete).
func report(r *vf.Run, cf *bigConfig, failAt int, res bigRun, st *bigStats, mu *sync.Mutex, best map[string]int) {
	for _, f := range res.findings {
		k := bigClauseName(f.clause) + "|" + strings.Join(f.tags, ",")
		cost := 100000 + len(cf.c.flat)*10 + res.calls
		mu.Lock()
		st.byClass[k]++
		mu.Unlock()
		old, seen := best[k]
		better := !seen || cost < old
		if better {
			best[k] = cost
		}
		v := vf.Violation{Clause: bigClauseName(f.clause), Tags: f.tags, Cost: cost}
		if better { // full text and replay file only for the simplest example of a (clause, tags) class
			sp := &bigSpec{Rows: cf.c.rows, Pattern: cf.c.pat, Limit: cf.limit, Drift: cf.drift, Grow: cf.grow, FailOp: failAt, Restart: f.restart}
			tr := runBig(cf, failAt, restartArg(f.restart), true)
			msg := f.msg + "\n config: " + cf.String()
			if failAt > 0 {
				msg += fmt.Sprintf("; DA operation %d of the run fails", failAt)
			}
			if f.restart > 0 {
				msg += fmt.Sprintf("; restart before call %d", f.restart)
			}
			trace := tr.trace
			if len(trace) > 40 {
				trace = append(append([]string{}, trace[:20]...), append([]string{"…"}, trace[len(trace)-19:]...)...)
			}
			v.Msg = msg + "\n history: " + strings.Join(trace, " ; ")
			v.History = replay{Crowded: sp}
		}
		r.Report(v)
	}
}

func restartArg(r int) int {
	if r <= 0 {
		return -1
	}
	return r
}

// measureBatch: one height with 1024 transactions, default limit: the largest number of ids in one blob-fetch call.
func measureBatch(r *vf.Run, st *bigStats, mu *sync.Mutex, withOracle bool) int {
	const probe = 1024
	cf := &bigConfig{c: mkBigContent([]int{probe}, 0), limit: 0, drift: 0}
	res := runBig(cf, 0, -1, false)
	st.runs++
	st.calls += int64(res.calls)
	if res.engErr != "" {
		r.EngineError("crowded heights, measurement: " + res.engErr)
		return nominalBatch
	}
	b := 0
	for _, n := range res.getLens {
		if n > b {
			b = n
		}
	}
	if len(res.getLens) < 2 || b <= 0 || b >= probe {
		st.caps = append(st.caps, fmt.Sprintf("crowded heights: a height with %d transactions was fetched with %d blob-fetch call(s); the sweep uses the nominal batch size %d and may not reach a batch border", probe, len(res.getLens), nominalBatch))
		st.bHow = "nominal (no chunk border found)"
		b = nominalBatch
	} else {
		st.bHow = fmt.Sprintf("measured: a height with %d transactions was read with %d blob-fetch calls of at most %d ids", probe, len(res.getLens), b)
	}
	cf.b = b
	if withOracle {
		report(r, cf, 0, res, st, mu, map[string]int{}) // the probe is an ordinary run: the oracle applies
	}
	return b
}

func runCrowdedPart(r *vf.Run, deadline time.Duration) *bigStats {
	st := &bigStats{byClass: map[string]int64{}, patterns: map[string]bool{}}
	var mu sync.Mutex
	started := time.Now()
	cpu0 := cpuTime()
	b := measureBatch(r, st, &mu, true)
	st.b = b

	// N: transactions at the crowded height
	nset := map[int]bool{}
	for _, n := range []int{b - 1, b, b + 1, 2*b - 1, 2 * b, 2*b + 1, 2*b + 2, 250} {
		nset[n] = true
	}
	if r.Thorough() {
		for n := b - 1; n <= 2*b+2; n++ { // every N across the first two borders
			nset[n] = true
		}
		for _, n := range []int{3*b - 1, 3 * b, 3*b + 1, 3*b + 2, 5*b + 1, 1000} {
			nset[n] = true
		}
	}
	for n := range nset {
		if n >= 2 {
			st.ns = append(st.ns, n)
		}
	}
	sort.Ints(st.ns)
	st.maxN = st.ns[len(st.ns)-1]
	// k: transactions per answer the limit is made for (limit = k * unit bytes; unit = 4 for the uniform pattern, 7 for
	// the cycling pattern whose transactions are 3..7 bytes, so that no transaction is larger than the limit)
	ks := []int{0, 1, 7, b - 1, b, b + 1, 150}
	if r.Thorough() {
		ks = append(ks, 2, 33, 2*b-1, 2*b, 2*b+1)
	}
	sort.Ints(ks)
	for _, k := range ks {
		if k == 0 {
			st.ks = append(st.ks, "default(1.5MB)")
		} else {
			st.ks = append(st.ks, fmt.Sprint(k))
		}
	}
	drifts := []uint64{0, 2}
	if r.Thorough() {
		drifts = []uint64{0, 1, 2}
	}
	st.drifts = drifts
	st.shapes = []string{"[N]", "[2,N,2]", "[N,b+1]", "[3,0,N,1]"}
	var cfgs []*bigConfig
	for _, n := range st.ns {
		for _, rows := range [][]int{{n}, {2, n, 2}, {n, b + 1}, {3, 0, n, 1}} {
			for pat := 0; pat <= 1; pat++ {
				c := mkBigContent(rows, pat)
				for _, k := range ks {
					for _, d := range drifts {
						for _, grow := range []bool{false, true} {
							if grow && len(rows) == 1 {
								continue // one height: the tip cannot grow
							}
							cfgs = append(cfgs, &bigConfig{c: c, limit: uint64(k) * bigUnit(pat), drift: d, grow: grow, b: b})
						}
					}
				}
			}
		}
	}
	st.configsTotal = len(cfgs)
	// work order: a fixed stride permutation, so that a run that is cut short by the deadline (loaded machine) has
	// still seen every N, layout and limit early instead of the small N only
	if n := len(cfgs); n > 1 {
		stride := n/2 + 1
		for gcd(stride, n) != 1 {
			stride++
		}
		perm := make([]*bigConfig, n)
		for i := range cfgs {
			perm[i] = cfgs[(i*stride)%n]
		}
		cfgs = perm
	}
	var next atomic.Int64
	var wg sync.WaitGroup
	workers := runtime.NumCPU()
	var skipped atomic.Int64
	sampleEvery := len(cfgs)/5 + 1
	for w := 0; w < workers; w++ {
		wg.Add(1)
		go func() {
			defer wg.Done()
			var l bigStats
			l.patterns = map[string]bool{}
			best := map[string]int{}
			for {
				ci := int(next.Add(1) - 1)
				if ci >= len(cfgs) {
					break
				}
				if time.Since(started) > deadline {
					skipped.Add(1)
					continue
				}
				cf := cfgs[ci]
				// fault-free run with a restart fork at every call boundary; it also counts the DA operations
				base := runBig(cf, 0, 0, false)
				results := []bigRun{base}
				fails := []int{0}
				if base.engErr == "" {
					for q := 1; q <= base.ops; q++ { // one retrieval error at every DA operation, again with every restart
						results = append(results, runBig(cf, q, 0, false))
						fails = append(fails, q)
					}
				}
				for i, res := range results {
					if res.engErr != "" {
						r.EngineError(fmt.Sprintf("crowded heights: %s; %s; failing DA operation %d", res.engErr, cf, fails[i]))
						continue
					}
					l.runs++
					if fails[i] > 0 {
						l.faultRuns++
					}
					l.calls += int64(res.calls)
					l.merged += int64(res.merged)
					l.diverged += int64(res.diverged)
					l.dropped += int64(res.dropped)
					l.nilNil += int64(res.nilNil)
					if res.capped {
						l.cappedRuns++
					}
					if res.maxGets > l.maxGets {
						l.maxGets = res.maxGets
					}
					if res.calls > l.maxCalls {
						l.maxCalls = res.calls
					}
					// outcome class: shape of the answer sequence, bucketed (the exact counts differ with every N)
					l.patterns[outcomeClass(cf, fails[i], res)] = true
					if len(res.findings) > 0 {
						report(r, cf, fails[i], res, st, &mu, best)
					}
				}
				if ci%sampleEvery == sampleEvery/2 {
					tr := runBig(cf, base.ops/2, -1, true)
					t := tr.trace
					if len(t) > 12 {
						t = append(append([]string{}, t[:8]...), "…", t[len(t)-1])
					}
					r.Sample(fmt.Sprintf("crowded: %s; DA operation %d fails: %s", cf, base.ops/2, strings.Join(t, " ; ")))
				}
				l.configsDone++
			}
			mu.Lock()
			st.runs += l.runs
			st.faultRuns += l.faultRuns
			st.calls += l.calls
			st.merged += l.merged
			st.diverged += l.diverged
			st.dropped += l.dropped
			st.nilNil += l.nilNil
			st.cappedRuns += l.cappedRuns
			st.configsDone += l.configsDone
			if l.maxGets > st.maxGets {
				st.maxGets = l.maxGets
			}
			if l.maxCalls > st.maxCalls {
				st.maxCalls = l.maxCalls
			}
			for k := range l.patterns {
				st.patterns[k] = true
			}
			mu.Unlock()
		}()
	}
	wg.Wait()
	st.configs = len(cfgs)
	if n := skipped.Load(); n > 0 {
		st.caps = append(st.caps, fmt.Sprintf("crowded heights: deadline %s: %d of %d configurations not started", deadline, n, len(cfgs)))
	}
	if st.dropped > 0 {
		st.caps = append(st.caps, fmt.Sprintf("crowded heights: %d restart positions were not continued because %d diverged continuations were already alive in the run", st.dropped, maxLiveForks))
	}
	if st.cappedRuns > 0 {
		st.caps = append(st.caps, fmt.Sprintf("crowded heights: %d runs were stopped by the call cap before they came to rest", st.cappedRuns))
	}
	st.wall = time.Since(started)
	st.cpu = cpuTime() - cpu0
	return st
}

func gcd(a, b int) int {
	for b != 0 {
		a, b = b, a%b
	}
	return a
}

func cpuTime() time.Duration {
	var ru syscall.Rusage
	if syscall.Getrusage(syscall.RUSAGE_SELF, &ru) != nil {
		return 0
	}
	return time.Duration(ru.Utime.Nano() + ru.Stime.Nano())
}

func outcomeClass(cf *bigConfig, failAt int, res bigRun) string {
	n := 0
	for _, x := range cf.c.rows {
		if x > n {
			n = x
		}
	}
	rel := "N"
	switch {
	case cf.b > 0 && n%cf.b == 0:
		rel = fmt.Sprintf("%db", n/cf.b)
	case cf.b > 0 && n%cf.b == cf.b-1:
		rel = fmt.Sprintf("%db-1", n/cf.b+1)
	case cf.b > 0 && n%cf.b <= 2:
		rel = fmt.Sprintf("%db+%d", n/cf.b, n%cf.b)
	case cf.b > 0:
		rel = fmt.Sprintf("%db+", n/cf.b)
	}
	lim := "default"
	if cf.limit != 0 {
		k := int(cf.limit / bigUnit(cf.c.pat))
		switch {
		case cf.b > 0 && k >= cf.b-1 && k <= cf.b+1:
			lim = fmt.Sprintf("b%+d", k-cf.b)
		default:
			lim = fmt.Sprint(k)
		}
	}
	f := "nofault"
	if failAt > 0 {
		f = "fault"
	}
	return fmt.Sprintf("crowded:heights=%d,N=%s,pat=%d,k=%s,drift=%d,grow=%v,%s:calls=%d,fetchcalls/listing<=%d,diverged=%d", len(cf.c.rows), rel, cf.c.pat, lim, cf.drift, cf.grow, f, res.calls, res.maxGets, res.diverged)
}

func replayCrowded(r *vf.Run, sp *bigSpec) {
	var mu sync.Mutex
	b := measureBatch(r, &bigStats{byClass: map[string]int64{}}, &mu, false)
	cf := &bigConfig{c: mkBigContent(sp.Rows, sp.Pattern), limit: sp.Limit, drift: sp.Drift, grow: sp.Grow, b: b}
	res := runBig(cf, sp.FailOp, restartArg(sp.Restart), true)
	if res.engErr != "" {
		r.EngineError(res.engErr)
	}
	fmt.Printf("replay (crowded heights): %s; failing DA operation %d; restart before call %d\n history: %s\n", cf, sp.FailOp, sp.Restart, strings.Join(res.trace, " ; "))
	for _, f := range res.findings {
		r.Report(vf.Violation{Clause: bigClauseName(f.clause), Tags: f.tags, Msg: f.msg, History: replay{Crowded: sp}})
	}
}
