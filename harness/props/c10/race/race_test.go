// Package race is the free-running supplement of C10 (see props/c13/race for the rationale): submitters and consumers
// call the real single.Sequencer concurrently on all cores, without scheduler and lock shim, under the Go race detector.
// Sampling; decides nothing. The parent check turns reports that involve repository code into clause "data-race".
package race

import (
	"context"
	"fmt"
	"os"
	"strconv"
	"sync"
	"testing"

	coreseq "github.com/evstack/ev-node/core/sequencer"
	"github.com/evstack/ev-node/sequencers/single"

	"verif/harness/world"
)

func run(submitters, consumers, perThread, bound int, reloadMid bool) (accepted, handed int) {
	ctx := context.Background()
	chainID := []byte("race-chain")
	kv := world.NewKV(nil)
	seq, err := single.NewSequencerWithQueueSize(ctx, world.Logger, kv, nil, chainID, 0, nil, true, bound)
	if err != nil {
		panic(err)
	}
	var wg sync.WaitGroup
	var mu sync.Mutex
	for s := 0; s < submitters; s++ {
		wg.Add(1)
		go func(s int) {
			defer wg.Done()
			for i := 0; i < perThread; i++ {
				_, err := seq.SubmitBatchTxs(ctx, coreseq.SubmitBatchTxsRequest{Id: chainID, Batch: &coreseq.Batch{Transactions: [][]byte{[]byte(fmt.Sprintf("s%d-%d", s, i%2))}}})
				if err == nil {
					mu.Lock()
					accepted++
					mu.Unlock()
				}
			}
		}(s)
	}
	for c := 0; c < consumers; c++ {
		wg.Add(1)
		go func() {
			defer wg.Done()
			for i := 0; i < perThread*2; i++ {
				resp, err := seq.GetNextBatch(ctx, coreseq.GetNextBatchRequest{Id: chainID})
				if err == nil && resp != nil && resp.Batch != nil && len(resp.Batch.Transactions) > 0 {
					mu.Lock()
					handed++
					mu.Unlock()
				}
				_, _ = seq.VerifyBatch(ctx, coreseq.VerifyBatchRequest{Id: chainID, BatchData: [][]byte{[]byte("x")}})
			}
		}()
	}
	wg.Wait()
	if reloadMid {
		// a second incarnation on the same datastore while nothing else runs (reload path under the detector)
		seq2, err := single.NewSequencerWithQueueSize(ctx, world.Logger, world.NewKV(kv.Image()), nil, chainID, 0, nil, true, bound)
		if err == nil {
			for {
				resp, err := seq2.GetNextBatch(ctx, coreseq.GetNextBatchRequest{Id: chainID})
				if err != nil || resp == nil || resp.Batch == nil || len(resp.Batch.Transactions) == 0 {
					break
				}
				handed++
			}
		}
	}
	return
}

func TestRaceFree(t *testing.T) {
	rounds := 1
	if n, err := strconv.Atoi(os.Getenv("VERIF_RACE_ROUNDS")); err == nil && n > 0 {
		rounds = n
	}
	runs, acc, han := 0, 0, 0
	for r := 0; r < rounds; r++ {
		for _, sub := range []int{1, 2, 4} {
			for _, con := range []int{1, 2} {
				for _, bound := range []int{1, 3, 64} {
					a, h := run(sub, con, 20, bound, true)
					runs++
					acc += a
					han += h
				}
			}
		}
	}
	fmt.Printf("RACE-PASS runs=%d submissions_accepted=%d batches_handed_out=%d\n", runs, acc, han)
}
