package c10

import (
	"context"
	"fmt"
	"sort"
	"strconv"
	"strings"
	"sync"
	"sync/atomic"

	coresequencer "github.com/evstack/ev-node/core/sequencer"

	"verif/harness/vf"
)

// LONG-RUN part: long lifetimes of ONE queue (no state search, deterministic runs).
//
// The BFS reaches its fixpoint with a handful of accepted batches per history, so everything that depends on HOW MANY
// batches one queue has accepted since it was last empty (the WAL sequence number: its digits, its width, its
// recomputation on reload) is outside of it. A long run accepts N batches on the real single.Sequencer with `next`
// interleaved so that the accepted-and-undelivered window [a..b] (a, b = acceptance numbers) slides over 0..N-1 with a
// fixed width, and at EVERY point of the run (after every single operation):
//   - reload probe: a twin sequencer built on a copy of the datastore is drained and must hand out exactly the window,
//     in acceptance order; a further reload of the drained twin must hand out nothing;
//   - resubmission forks: for each window position j (all of them up to 8, else the first and last 4) and for one
//     fresh content, a sequencer reloaded from the copy accepts ONE more batch with the contents of window[j]
//     (WAL key reuse after a reload); then its own drain AND the drain of yet another reload of it must both be
//     window+[that batch];
//   - in `adopt` runs the live instance is then replaced by the reloaded one (the lifetime goes on across N·2
//     restarts, the sequence number is recomputed from the WAL every time), otherwise the live instance runs through
//     (the sequence number lives in memory, restarts are judged on twins only).
// Every `next` of the live instance must return the head of the window; the run ends with a full drain and a reload.
// Contents: submission k carries contents number k (all distinct), or k mod P (identical contents come back every P
// submissions: P=1 all batches identical, so any reuse of a WAL key destroys a record; P=3 identical contents
// pending at the same time for width >= 3).

type longCfg struct {
	N      int  `json:"accepted"` // batches accepted in the run (acceptance numbers 0..N-1)
	W      int  `json:"window"`   // next is called whenever more than W batches are pending; 0 = never
	Period int  `json:"period"`   // contents of submission k: k mod Period; 0 = k (all distinct)
	Adopt  bool `json:"adopt"`    // the reloaded instance replaces the live one at every point
}

func (c longCfg) String() string {
	w := strconv.Itoa(c.W)
	if c.W == 0 {
		w = "unbounded"
	}
	p := "all distinct"
	if c.Period > 0 {
		p = fmt.Sprintf("k mod %d", c.Period)
	}
	return fmt.Sprintf("long run: %d accepted, window %s, contents %s, adopt-reloaded=%v", c.N, w, p, c.Adopt)
}

const longFresh = 900000 // contents number never used by a main run

func mkLong(c int) [][]byte {
	txs := [][]byte{[]byte(fmt.Sprintf("long-%06d", c))}
	if c%4 == 3 {
		txs = append(txs, []byte("x"))
	}
	return txs
}

// identifyLong maps an answer of GetNextBatch to a contents number; -1 = not a batch of the long runs.
func identifyLong(b *coresequencer.Batch) (int, bool) {
	if b == nil || len(b.Transactions) == 0 {
		return 0, false
	}
	s := string(b.Transactions[0])
	if !strings.HasPrefix(s, "long-") {
		return -1, true
	}
	c, err := strconv.Atoi(s[len("long-"):])
	if err != nil || !sameTxs(b.Transactions, mkLong(c)) {
		return -1, true
	}
	return c, true
}

func (s *sys) nextLong() (int, bool, error) {
	resp, err := s.seq.GetNextBatch(context.Background(), coresequencer.GetNextBatchRequest{Id: chainID})
	if err != nil {
		return 0, false, err
	}
	if resp == nil {
		return 0, false, fmt.Errorf("nil response without error")
	}
	c, ok := identifyLong(resp.Batch)
	return c, ok, nil
}

func (s *sys) drainLong(limit int) ([]int, error) {
	var out []int
	for len(out) < limit {
		c, ok, err := s.nextLong()
		if err != nil {
			return out, err
		}
		if !ok {
			return out, nil
		}
		out = append(out, c)
	}
	return out, nil
}

func showLong(xs []int) string {
	if len(xs) <= 24 {
		return fmt.Sprint(xs)
	}
	return fmt.Sprintf("%v … %v (%d batches)", xs[:10], xs[len(xs)-10:], len(xs))
}

// cmpLong: same clauses as compare (surplus / missing / order), over contents numbers.
func cmpLong(got, want []int, afterReload bool) []finding {
	same := len(got) == len(want)
	for i := 0; same && i < len(got); i++ {
		same = got[i] == want[i]
	}
	if same {
		return nil
	}
	first := 0
	for first < len(got) && first < len(want) && got[first] == want[first] {
		first++
	}
	where := fmt.Sprintf("answers %s, accepted and undelivered %s (first difference at position %d)", showLong(got), showLong(want), first)
	var out []finding
	wc, gc := count(want), count(got)
	var surplus, missing []int
	for id, n := range gc {
		if n > wc[id] {
			surplus = append(surplus, id)
		}
	}
	for id, n := range wc {
		if n > gc[id] {
			missing = append(missing, id)
		}
	}
	sort.Ints(surplus)
	sort.Ints(missing)
	if len(surplus) > 0 {
		out = append(out, finding{clause: "exactly-once", msg: fmt.Sprintf("handed out contents %s more often than accepted and undelivered (reappeared or never accepted): %s", showLong(surplus), where)})
	}
	if len(missing) > 0 {
		if afterReload {
			out = append(out, finding{clause: "durability", msg: fmt.Sprintf("accepted and undelivered contents %s did not survive the reload: %s", showLong(missing), where)})
		} else {
			out = append(out, finding{clause: "exactly-once", msg: fmt.Sprintf("accepted contents %s never handed out: %s", showLong(missing), where)})
		}
	}
	seen := map[int]int{}
	var legit []int
	for _, id := range got {
		if seen[id] < wc[id] {
			legit = append(legit, id)
		}
		seen[id]++
	}
	if !isSubsequence(legit, want) {
		out = append(out, finding{clause: "fifo-order", msg: "answers are not in acceptance order: " + where})
	}
	if len(out) == 0 { // cannot happen (unequal lists differ in multiset or order); keep the oracle total
		out = append(out, finding{clause: "fifo-order", msg: where})
	}
	return out
}

type longStats struct {
	runs, points, reloads, forks, accepted, delivered int64
	maxSeq                                            int64
}

type longViol struct {
	clause, msg string
	tags        []string
}

// forkPositions: window positions whose contents are resubmitted after a reload.
func forkPositions(n int) []int {
	var out []int
	if n <= 8 {
		for i := 0; i < n; i++ {
			out = append(out, i)
		}
		return out
	}
	for i := 0; i < 4; i++ {
		out = append(out, i)
	}
	for i := n - 4; i < n; i++ {
		out = append(out, i)
	}
	return out
}

// runLong executes one long run; it stops at the first point whose oracle fails. eng != "" = machinery problem.
func runLong(cfg longCfg, st *longStats) (viols []longViol, eng string) {
	bound := cfg.W + 16
	if cfg.W == 0 {
		bound = cfg.N + 16
	}
	s, err := open(nil, bound)
	if err != nil {
		return nil, "cannot build sequencer on an empty datastore: " + err.Error()
	}
	atomic.AddInt64(&st.runs, 1)
	var pending []int // contents numbers
	first := 0        // acceptance number of pending[0]
	reloads := 0
	content := func(k int) int {
		if cfg.Period > 0 {
			return k % cfg.Period
		}
		return k
	}
	fail := func(fs []finding, at string, extra ...string) {
		for _, f := range fs {
			tags := []string{"long-run"}
			if first+len(pending) >= 10 {
				tags = append(tags, "accepted-10+")
			}
			if reloads > 0 {
				tags = append(tags, "has-reload")
			}
			for _, n := range count(pending) {
				if n >= 2 {
					tags = append(tags, "identical-batches-queued")
					break
				}
			}
			tags = append(tags, extra...)
			viols = append(viols, longViol{clause: f.clause, tags: tags, msg: fmt.Sprintf("%s; %s, window = acceptance numbers [%d..%d]: %s", cfg, at, first, first+len(pending)-1, f.msg)})
		}
	}
	// point: judged after every operation of the run; false = oracle failed
	point := func(at string) bool {
		atomic.AddInt64(&st.points, 1)
		img := s.kv.Image()
		twin, err := open(img, bound)
		if err != nil {
			fail([]finding{{clause: "op-error", msg: "reload: " + err.Error()}}, at)
			return false
		}
		reloads++
		atomic.AddInt64(&st.reloads, 1)
		got, err := twin.drainLong(len(pending) + 3)
		if err != nil {
			fail([]finding{{clause: "op-error", msg: "GetNextBatch after reload: " + err.Error()}}, at)
			return false
		}
		if fs := cmpLong(got, pending, true); len(fs) > 0 {
			fail(fs, at+", reload")
			return false
		}
		twin2, err := open(twin.kv.Image(), bound)
		if err != nil {
			fail([]finding{{clause: "op-error", msg: "second reload: " + err.Error()}}, at)
			return false
		}
		atomic.AddInt64(&st.reloads, 1)
		if again, _ := twin2.drainLong(3); len(again) > 0 {
			fail([]finding{{clause: "exactly-once", msg: fmt.Sprintf("after the reloaded sequencer handed out everything, a further reload hands out %s again", showLong(again))}}, at+", reload, drain, reload")
			return false
		}
		// resubmission forks
		cands := []int{longFresh}
		for _, j := range forkPositions(len(pending)) {
			cands = append(cands, pending[j])
		}
		done := map[int]bool{}
		for _, c := range cands {
			if done[c] {
				continue
			}
			done[c] = true
			atomic.AddInt64(&st.forks, 1)
			f, err := open(img, bound)
			if err != nil {
				fail([]finding{{clause: "op-error", msg: "reload: " + err.Error()}}, at)
				return false
			}
			what := fmt.Sprintf("%s, reload, submit(contents %d)", at, c)
			if err := f.submit(chainID, mkLong(c)); err != nil {
				fail([]finding{{clause: "spurious-reject", msg: fmt.Sprintf("well-formed submission rejected (%v) with %d < bound %d accepted and undelivered", err, len(pending), bound)}}, what, "resubmit-after-reload")
				return false
			}
			want := append(append([]int(nil), pending...), c)
			f2, err := open(f.kv.Image(), bound)
			if err != nil {
				fail([]finding{{clause: "op-error", msg: "reload: " + err.Error()}}, what)
				return false
			}
			atomic.AddInt64(&st.reloads, 2)
			got2, err := f2.drainLong(len(want) + 3)
			if err != nil {
				fail([]finding{{clause: "op-error", msg: "GetNextBatch after reload: " + err.Error()}}, what)
				return false
			}
			if fs := cmpLong(got2, want, true); len(fs) > 0 {
				fail(fs, what+", reload", "resubmit-after-reload")
				return false
			}
			got1, err := f.drainLong(len(want) + 3)
			if err != nil {
				fail([]finding{{clause: "op-error", msg: "GetNextBatch: " + err.Error()}}, what)
				return false
			}
			if fs := cmpLong(got1, want, false); len(fs) > 0 {
				fail(fs, what+", drain without a further reload", "resubmit-after-reload")
				return false
			}
		}
		if cfg.Adopt {
			if s, err = open(img, bound); err != nil {
				fail([]finding{{clause: "op-error", msg: "reload: " + err.Error()}}, at)
				return false
			}
		}
		return true
	}
	for k := 0; k < cfg.N; k++ {
		c := content(k)
		at := fmt.Sprintf("after submit #%d (contents %d)", k, c)
		if err := s.submit(chainID, mkLong(c)); err != nil {
			fail([]finding{{clause: "spurious-reject", msg: fmt.Sprintf("well-formed submission rejected (%v) with %d < bound %d accepted and undelivered", err, len(pending), bound)}}, at)
			return
		}
		atomic.AddInt64(&st.accepted, 1)
		pending = append(pending, c)
		for {
			old := atomic.LoadInt64(&st.maxSeq)
			if int64(k) <= old || atomic.CompareAndSwapInt64(&st.maxSeq, old, int64(k)) {
				break
			}
		}
		if !point(at) {
			return
		}
		if cfg.W > 0 && len(pending) > cfg.W {
			at = fmt.Sprintf("after submit #%d and next", k)
			got, ok, err := s.nextLong()
			if err != nil {
				fail([]finding{{clause: "op-error", msg: "GetNextBatch: " + err.Error()}}, at)
				return
			}
			if !ok || got != pending[0] {
				var all []int
				if ok {
					rest, _ := s.drainLong(len(pending) + 3)
					all = append([]int{got}, rest...)
				}
				fail(cmpLong(all, pending, false), at)
				return
			}
			atomic.AddInt64(&st.delivered, 1)
			pending = pending[1:]
			first++
			if !point(at) {
				return
			}
		}
	}
	// end: the live instance hands out exactly the window, and nothing comes back after a reload
	at := "end of run, drain"
	got, err := s.drainLong(len(pending) + 3)
	if err != nil {
		fail([]finding{{clause: "op-error", msg: "GetNextBatch (drain): " + err.Error()}}, at)
		return
	}
	if fs := cmpLong(got, pending, false); len(fs) > 0 {
		fail(fs, at)
		return
	}
	atomic.AddInt64(&st.delivered, int64(len(got)))
	twin, err := open(s.kv.Image(), bound)
	if err != nil {
		fail([]finding{{clause: "op-error", msg: "reload (end probe): " + err.Error()}}, at)
		return
	}
	atomic.AddInt64(&st.reloads, 1)
	if again, _ := twin.drainLong(3); len(again) > 0 {
		first, pending = first+len(pending), nil
		fail([]finding{{clause: "exactly-once", msg: fmt.Sprintf("after everything was handed out, a reload hands out %s again", showLong(again))}}, at+", reload")
	}
	return
}

// longConfigs lists the runs of a tier.
func longConfigs(thorough bool) (cfgs []longCfg, text map[string]any) {
	n, nUnbounded := 300, 40
	widths := []int{1, 2, 3, 8}
	periods := []int{0, 1, 3}
	if thorough {
		n, nUnbounded = 1100, 150 // 4200/600 took 25 min for this part alone; 1100 still crosses 0xff/0x100, 999/1000 and 0x3ff/0x400
		widths = []int{1, 2, 3, 5, 8, 16}
		periods = []int{0, 1, 2, 3, 7}
	}
	for _, adopt := range []bool{false, true} {
		for _, p := range periods {
			for _, w := range widths {
				cfgs = append(cfgs, longCfg{N: n, W: w, Period: p, Adopt: adopt})
			}
			cfgs = append(cfgs, longCfg{N: nUnbounded, W: 0, Period: p, Adopt: adopt})
		}
	}
	text = map[string]any{
		"accepted_per_run":                       n,
		"accepted_per_run_with_unbounded_window": nUnbounded,
		"window_widths":                          append(append([]int(nil), widths...), 0),
		"window_width_0":                         "no next before the end of the run: window [0..k]",
		"contents_periods":                       periods,
		"contents_period_0":                      "all contents distinct",
		"live_instance":                          []string{"runs through (restarts judged on twins)", "replaced by the reloaded one at every point"},
		"points":                                 "after every submit and every next",
		"resubmitted_after_reload_per_point":     "one fresh content + the contents of every window position (more than 8 pending: first 4 and last 4)",
		"queue_size":                             "window width + 16, unbounded window: accepted + 16 (never reached: no refusals in this part)",
		"runs":                                   len(cfgs),
	}
	return
}

// runLongRuns executes all long runs of the tier on a pool of workers and reports their violations.
func runLongRuns(r *vf.Run) (st longStats, bounds map[string]any) {
	cfgs, bounds := longConfigs(r.Thorough())
	jobs := make(chan longCfg)
	var wg sync.WaitGroup
	for w := 0; w < 16; w++ {
		wg.Add(1)
		go func() {
			defer wg.Done()
			for cfg := range jobs {
				viols, eng := runLong(cfg, &st)
				if eng != "" {
					r.EngineError("long-run part: " + eng)
				}
				for _, v := range viols {
					c := cfg
					r.Report(vf.Violation{Clause: v.clause, Tags: v.tags, Msg: v.msg, Cost: cfg.N, History: replay{Long: &c}})
				}
				if len(viols) == 0 && eng == "" {
					r.Outcome("long|" + cfg.String())
				}
			}
		}()
	}
	// heaviest first
	sort.SliceStable(cfgs, func(i, j int) bool { return (cfgs[i].W == 0) && (cfgs[j].W != 0) })
	for _, c := range cfgs {
		jobs <- c
	}
	close(jobs)
	wg.Wait()
	return st, bounds
}
