package c10

import (
	"bytes"
	"context"
	"encoding/hex"
	"fmt"
	"os"
	"sort"
	"strings"
	"sync"
	"testing"
	"time"

	logging "github.com/ipfs/go-log/v2"

	coresequencer "github.com/evstack/ev-node/core/sequencer"
	"github.com/evstack/ev-node/sequencers/single"

	"verif/harness/explore"
	"verif/harness/vf"
	"verif/harness/world"
)

// C10 — the single sequencer's batch queue is a durable FIFO with exactly-once delivery.
// Sequential part: explicit-state BFS over operation histories on the REAL single.Sequencer (queue.go, sequencer.go)
// over the logging datastore double world.KV (sorted Query like badger, write log, crash injection).
// Reference model: a slice of accepted-and-undelivered batches.
// quick: depth 8, queue sizes 2 and 3, batches A,B,C; thorough: depth 12, queue sizes 1..4, batches A,B,C,D.
// Every reload is judged on a twin built from the same datastore image (the live instance is not disturbed), a crash
// inside an operation settles the model on whichever of {applied, not applied} the twin shows, and every history
// ends with a full drain plus a reload probe (nothing handed out may come back). A history whose oracle fails is
// reported and not extended, so on a tree with a defect the search reaches a fixpoint of the defect-free states.

const queuePrefix = "/batches" // sequencer.go: NewBatchQueue(db, "batches", …)

var (
	chainID   = []byte("c10")
	foreignID = []byte("c10-foreign")
	logger    = func() logging.EventLogger {
		_ = logging.SetLogLevel("c10", "fatal")
		l := logging.Logger("c10")
		_ = logging.SetLogLevel("c10", "fatal")
		return l
	}()
)

// batch ids
const (
	idA = iota
	idB
	idC
	idD // thorough tier only
	idF // only ever submitted under the foreign chain id
	nIDs
	idUnknown = -1
)

var idNames = []string{"A", "B", "C", "D", "F"}

func name(id int) string {
	if id >= 0 && id < nIDs {
		return idNames[id]
	}
	return "?"
}

func names(ids []int) string {
	s := make([]string, len(ids))
	for i, id := range ids {
		s[i] = name(id)
	}
	return "[" + strings.Join(s, ",") + "]"
}

// mkTxs builds a fresh copy of the batch contents on every call (no aliasing between submissions).
// C contains an empty transaction (round-trips through the protobuf WAL encoding as an empty element).
func mkTxs(id int) [][]byte {
	switch id {
	case idA:
		return [][]byte{[]byte("a1"), []byte("a2")}
	case idB:
		return [][]byte{[]byte("b")}
	case idC:
		return [][]byte{{}, []byte("c")}
	case idD:
		return [][]byte{[]byte("d1"), []byte("d2"), []byte("d3")}
	case idF:
		return [][]byte{[]byte("foreign")}
	}
	panic("bad id")
}

// mkTxsAgain builds batch A's bytes along a different path (identical bytes, distinct allocation).
func mkTxsAgain() [][]byte {
	whole := []byte("a1a2")
	return [][]byte{append([]byte(nil), whole[:2]...), append([]byte(nil), whole[2:]...)}
}

func sameTxs(a, b [][]byte) bool {
	if len(a) != len(b) {
		return false
	}
	for i := range a {
		if !bytes.Equal(a[i], b[i]) {
			return false
		}
	}
	return true
}

// identify maps an answer of GetNextBatch to a batch id; ok=false for the empty answer.
func identify(b *coresequencer.Batch) (id int, ok bool) {
	if b == nil || len(b.Transactions) == 0 {
		return 0, false
	}
	for i := 0; i < nIDs; i++ {
		if sameTxs(b.Transactions, mkTxs(i)) {
			return i, true
		}
	}
	return idUnknown, true
}

var hashHex = func() [nIDs]string {
	var out [nIDs]string
	for i := 0; i < nIDs; i++ {
		b := coresequencer.Batch{Transactions: mkTxs(i)}
		h, err := b.Hash()
		if err != nil {
			panic(err)
		}
		out[i] = hex.EncodeToString(h)
	}
	return out
}()

// ---------------------------------------------------------------------------------------------------------------
// actions

type action struct {
	kind  string // submit, again, empty, foreign, next, reload, crashsubmit, crashnext
	id    int
	k     int
	label string
}

func alphabet(withD bool) []action {
	as := []action{
		{kind: "submit", id: idA, label: "submit(A)"},
		{kind: "submit", id: idB, label: "submit(B)"},
		{kind: "again", id: idA, label: "submit(A-again)"},
		{kind: "submit", id: idC, label: "submit(C)"},
		{kind: "empty", label: "submit(empty)"},
		{kind: "foreign", id: idF, label: "submit(F,foreign-chain-id)"},
		{kind: "next", label: "next"},
		{kind: "reload", label: "reload"},
	}
	for _, id := range []int{idA, idB} {
		for k := 0; k < 2; k++ {
			as = append(as, action{kind: "crashsubmit", id: id, k: k, label: fmt.Sprintf("submit(%s)+crash-before-write-%d+reload", name(id), k)})
		}
	}
	for k := 0; k < 2; k++ {
		as = append(as, action{kind: "crashnext", k: k, label: fmt.Sprintf("next+crash-before-write-%d+reload", k)})
	}
	if withD { // appended last so that replay indices of the common actions agree between the tiers
		as = append(as, action{kind: "submit", id: idD, label: "submit(D)"})
	}
	return as
}

// ---------------------------------------------------------------------------------------------------------------
// system under test

type sys struct {
	kv  *world.KV
	seq *single.Sequencer
}

func open(image map[string][]byte, bound int) (*sys, error) {
	kv := world.NewKV(image)
	seq, err := single.NewSequencerWithQueueSize(context.Background(), logger, kv, nil, chainID, time.Second, nil, true, bound)
	if err != nil {
		return nil, err
	}
	return &sys{kv: kv, seq: seq}, nil
}

func (s *sys) submit(id []byte, txs [][]byte) error {
	var b *coresequencer.Batch
	if txs != nil {
		b = &coresequencer.Batch{Transactions: txs}
	}
	_, err := s.seq.SubmitBatchTxs(context.Background(), coresequencer.SubmitBatchTxsRequest{Id: id, Batch: b})
	return err
}

// next returns (id, nonEmpty, err).
func (s *sys) next() (int, bool, error) {
	resp, err := s.seq.GetNextBatch(context.Background(), coresequencer.GetNextBatchRequest{Id: chainID})
	if err != nil {
		return 0, false, err
	}
	if resp == nil {
		return 0, false, fmt.Errorf("nil response without error")
	}
	id, ok := identify(resp.Batch)
	return id, ok, nil
}

// drain calls GetNextBatch until the first empty answer (at most limit non-empty answers are collected).
func (s *sys) drain(limit int) ([]int, error) {
	var out []int
	for len(out) < limit {
		id, ok, err := s.next()
		if err != nil {
			return out, err
		}
		if !ok {
			return out, nil
		}
		out = append(out, id)
	}
	return out, nil
}

func (s *sys) prefixImage() string {
	img := s.kv.Image()
	for k := range img {
		if !strings.HasPrefix(k, queuePrefix) {
			delete(img, k)
		}
	}
	return world.CanonImage(img)
}

// ---------------------------------------------------------------------------------------------------------------
// oracle

type viol struct {
	clause string
	tags   []string
	msg    string
}

type finding struct {
	clause  string
	msg     string
	missing []int // for durability / exactly-once(lost)
}

func count(xs []int) map[int]int {
	m := map[int]int{}
	for _, x := range xs {
		m[x]++
	}
	return m
}

func isSubsequence(sub, of []int) bool {
	j := 0
	for _, x := range of {
		if j < len(sub) && sub[j] == x {
			j++
		}
	}
	return j == len(sub)
}

// compare checks a complete drain `got` (everything the queue hands out from now on) against the model's
// accepted-and-undelivered list `want`. Clauses are evaluated independently:
//   - surplus (handed out more often than accepted and undelivered): "rejected-leaves-no-trace" for the batch that was
//     only ever submitted under a foreign chain id, otherwise "exactly-once";
//   - missing: "durability" when the drain directly follows a reload, otherwise "exactly-once" (never handed out);
//   - order: "fifo-order" when the answers (surplus occurrences dropped) are not a subsequence of the accepted order.
func compare(got, want []int, afterReload bool) []finding {
	var out []finding
	wc, gc := count(want), count(got)
	var surplus, missing []int
	for id := idUnknown; id < nIDs; id++ {
		for i := wc[id]; i < gc[id]; i++ {
			surplus = append(surplus, id)
		}
		for i := gc[id]; i < wc[id]; i++ {
			missing = append(missing, id)
		}
	}
	if len(surplus) > 0 {
		var foreign, other []int
		for _, id := range surplus {
			if id == idF {
				foreign = append(foreign, id)
			} else {
				other = append(other, id)
			}
		}
		if len(foreign) > 0 {
			out = append(out, finding{clause: "rejected-leaves-no-trace", msg: fmt.Sprintf("the batch submitted under a foreign chain id is handed out: answers %s, accepted and undelivered %s", names(got), names(want))})
		}
		if len(other) > 0 {
			out = append(out, finding{clause: "exactly-once", msg: fmt.Sprintf("handed out %s more often than accepted (reappeared or never accepted): answers %s, accepted and undelivered %s", names(other), names(got), names(want))})
		}
	}
	if len(missing) > 0 {
		if afterReload {
			out = append(out, finding{clause: "durability", missing: missing, msg: fmt.Sprintf("accepted and undelivered %s did not survive the reload: answers after reload %s, accepted and undelivered %s", names(missing), names(got), names(want))})
		} else {
			out = append(out, finding{clause: "exactly-once", missing: missing, msg: fmt.Sprintf("accepted %s never handed out: answers %s, accepted and undelivered %s", names(missing), names(got), names(want))})
		}
	}
	// order of what is legitimately there
	seen := map[int]int{}
	var legit []int
	for _, id := range got {
		if seen[id] < wc[id] {
			legit = append(legit, id)
		}
		seen[id]++
	}
	if !isSubsequence(legit, want) {
		out = append(out, finding{clause: "fifo-order", msg: fmt.Sprintf("answers %s are not in acceptance order %s", names(got), names(want))})
	}
	return out
}

// model is the boring reference.
type model struct {
	pending []int
	dup     uint8 // bit i: two byte-identical copies of batch i were pending at once and i has been pending ever since
}

func (m model) clone() model {
	return model{pending: append([]int(nil), m.pending...), dup: m.dup}
}

func (m *model) push(id int) {
	m.pending = append(m.pending, id)
	if count(m.pending)[id] >= 2 {
		m.dup |= 1 << uint(id)
	}
}

func (m *model) pop() {
	head := m.pending[0]
	m.pending = m.pending[1:]
	if count(m.pending)[head] == 0 {
		m.dup &^= 1 << uint(head)
	}
}

// hashOrderDiffers: ≥2 distinct pending batches whose content-hash order differs from their arrival order.
func hashOrderDiffers(pending []int) bool {
	var distinct []int
	seen := map[int]bool{}
	for _, id := range pending {
		if !seen[id] {
			seen[id] = true
			distinct = append(distinct, id)
		}
	}
	if len(distinct) < 2 {
		return false
	}
	byHash := append([]int(nil), distinct...)
	sort.Slice(byHash, func(i, j int) bool { return hashHex[byHash[i]] < hashHex[byHash[j]] })
	for i := range distinct {
		if distinct[i] != byHash[i] {
			return true
		}
	}
	return false
}

// Tags (history features):
//
//	identical-batches-queued  on a loss (durability / exactly-once-lost): every lost batch had two byte-identical
//	                          copies pending at the same time (and has been pending ever since); on other clauses:
//	                          some still pending batch had.
//	reload-with-2+-queued     the violation is observed directly after a reload (or crash+reload) that happened while
//	                          ≥2 distinct batches were pending whose content-hash order differs from arrival order.
//	has-reload / has-crash    informational.
func tagsFor(f finding, m model, atReload bool, acts []action, hist []int) []string {
	var tags []string
	if len(f.missing) > 0 {
		all := true
		for _, id := range f.missing {
			if id < 0 || m.dup&(1<<uint(id)) == 0 {
				all = false
			}
		}
		if all {
			tags = append(tags, "identical-batches-queued")
		}
	} else if m.dup != 0 {
		tags = append(tags, "identical-batches-queued")
	}
	if atReload && hashOrderDiffers(m.pending) {
		tags = append(tags, "reload-with-2+-queued")
	}
	hasReload, hasCrash := false, false
	for _, ai := range hist {
		switch acts[ai].kind {
		case "reload":
			hasReload = true
		case "crashsubmit", "crashnext":
			hasCrash = true
		}
	}
	if hasReload {
		tags = append(tags, "has-reload")
	}
	if hasCrash {
		tags = append(tags, "has-crash")
	}
	return tags
}

type result struct {
	key   string
	prune bool
	viols []viol
	trace []string
	eng   string
	stats struct{ accepted, rejected, delivered, crashes int }
}

func runHistory(acts []action, bound int, hist []int) (res result) {
	s, err := open(nil, bound)
	if err != nil {
		res.eng = "cannot build sequencer on an empty datastore: " + err.Error()
		return
	}
	var m model
	fail := func(fs []finding, mm model, atReload bool, step int) {
		for _, f := range fs {
			res.viols = append(res.viols, viol{clause: f.clause, msg: f.msg, tags: tagsFor(f, mm, atReload, acts, hist[:step+1])})
		}
	}
	one := func(clause, msg string, step int) {
		fail([]finding{{clause: clause, msg: msg}}, m, false, step)
	}
	limit := func(want []int) int { return len(want) + 3 }

	for step, ai := range hist {
		a := acts[ai]
		res.trace = append(res.trace, a.label)
		switch a.kind {
		case "submit", "again":
			txs := mkTxs(a.id)
			if a.kind == "again" {
				txs = mkTxsAgain()
			}
			before := s.prefixImage()
			err := s.submit(chainID, txs)
			if err == nil {
				res.stats.accepted++
				m.push(a.id)
				if len(m.pending) > bound {
					one("bound", fmt.Sprintf("submission of %s accepted while %d batches were accepted and undelivered (bound %d)", name(a.id), len(m.pending)-1, bound), step)
					return
				}
			} else {
				res.stats.rejected++
				if len(m.pending) < bound {
					one("spurious-reject", fmt.Sprintf("well-formed submission of %s rejected (%v) with %d < bound %d accepted and undelivered", name(a.id), err, len(m.pending), bound), step)
					return
				}
				if after := s.prefixImage(); after != before {
					one("rejected-leaves-no-trace", fmt.Sprintf("rejected submission of %s (%v) changed the key space under %s:\n before %s\n after  %s", name(a.id), err, queuePrefix, before, after), step)
					return
				}
			}
		case "empty":
			// an empty submission is neither an accepted batch nor a rejection the statement speaks about: model no-op
			// (both shapes: a batch without transactions and no batch at all)
			_ = s.submit(chainID, [][]byte{})
			_ = s.submit(chainID, nil)
		case "foreign":
			before := s.prefixImage()
			err := s.submit(foreignID, mkTxs(a.id))
			if err == nil {
				one("rejected-leaves-no-trace", "submission under a foreign chain id was not rejected", step)
				return
			}
			res.stats.rejected++
			if after := s.prefixImage(); after != before {
				one("rejected-leaves-no-trace", fmt.Sprintf("submission under a foreign chain id (%v) changed the key space under %s:\n before %s\n after  %s", err, queuePrefix, before, after), step)
				return
			}
		case "next":
			id, ok, err := s.next()
			if err != nil {
				one("op-error", "GetNextBatch: "+err.Error(), step)
				return
			}
			switch {
			case !ok && len(m.pending) == 0:
			case ok && len(m.pending) > 0 && id == m.pending[0]:
				res.stats.delivered++
				m.pop()
			default:
				var got []int
				if ok {
					got = append(got, id)
					rest, _ := s.drain(limit(m.pending))
					got = append(got, rest...)
				}
				fs := compare(got, m.pending, false)
				if len(fs) == 0 {
					fs = []finding{{clause: "fifo-order", msg: fmt.Sprintf("answers %s, accepted and undelivered %s", names(got), names(m.pending))}}
				}
				fail(fs, m, false, step)
				return
			}
		case "reload":
			img := s.kv.Image()
			// peek: an identical twin built from the same image is drained; the live instance stays untouched
			twin, err := open(img, bound)
			if err != nil {
				one("op-error", "reload: "+err.Error(), step)
				return
			}
			got, err := twin.drain(limit(m.pending))
			if err != nil {
				one("op-error", "GetNextBatch after reload: "+err.Error(), step)
				return
			}
			if fs := compare(got, m.pending, true); len(fs) > 0 {
				fail(fs, m, true, step)
				return
			}
			if s, err = open(img, bound); err != nil {
				one("op-error", "reload: "+err.Error(), step)
				return
			}
		case "crashsubmit", "crashnext":
			base := s.kv.NumWrites()
			fired := false
			s.kv.OnWrite = func(idx int, w world.Write) bool {
				if idx-base == a.k {
					fired = true
					return true
				}
				return false
			}
			done := make(chan struct{})
			go func(s *sys) {
				defer close(done)
				if a.kind == "crashsubmit" {
					_ = s.submit(chainID, mkTxs(a.id))
				} else {
					_, _, _ = s.next()
				}
			}(s)
			<-done
			if !fired {
				// fewer than k+1 durable writes in this operation: same as the plain operation followed by reload
				res.prune = true
				return
			}
			res.stats.crashes++
			// the operation did not return: applied or not applied are both acceptable; everything accepted earlier
			// and not handed out must survive, nothing handed out earlier may reappear
			cands := []model{m.clone()}
			if a.kind == "crashsubmit" {
				if len(m.pending) < bound {
					c := m.clone()
					c.push(a.id)
					cands = append(cands, c)
				}
			} else if len(m.pending) > 0 {
				c := m.clone()
				c.pop()
				cands = append(cands, c)
			}
			img := s.kv.Image()
			twin, err := open(img, bound)
			if err != nil {
				one("op-error", "reload after crash: "+err.Error(), step)
				return
			}
			got, err := twin.drain(limit(cands[len(cands)-1].pending) + 1)
			if err != nil {
				one("op-error", "GetNextBatch after crash+reload: "+err.Error(), step)
				return
			}
			best, bestFs := -1, []finding(nil)
			for i, c := range cands {
				fs := compare(got, c.pending, true)
				if len(fs) == 0 {
					best, bestFs = i, nil
					break
				}
				if best < 0 || len(fs) < len(bestFs) {
					best, bestFs = i, fs
				}
			}
			if len(bestFs) > 0 {
				for i := range bestFs {
					bestFs[i].msg = fmt.Sprintf("after a crash inside %s (neither the applied nor the not-applied outcome fits): %s", a.label, bestFs[i].msg)
				}
				fail(bestFs, cands[best], true, step)
				return
			}
			m = cands[best]
			if s, err = open(img, bound); err != nil {
				one("op-error", "reload after crash: "+err.Error(), step)
				return
			}
		}
	}

	// canonical state, taken before the destructive end probes: volatile queue state (hook) + durable image + model
	res.key = fmt.Sprintf("mem{%s}|db{%s}|pending%v|dup%d", s.seq.VerifMemState(), s.kv.Canon(), m.pending, m.dup)

	// end probe 1: what the live instance hands out from now on is exactly the accepted-and-undelivered list
	last := len(hist) - 1
	got, err := s.drain(limit(m.pending))
	if err != nil {
		one("op-error", "GetNextBatch (drain): "+err.Error(), last)
		return
	}
	if fs := compare(got, m.pending, false); len(fs) > 0 {
		fail(fs, m, false, last)
		return
	}
	// end probe 2: everything has been handed out; nothing may reappear after a reload
	twin, err := open(s.kv.Image(), bound)
	if err != nil {
		one("op-error", "reload (end probe): "+err.Error(), last)
		return
	}
	again, err := twin.drain(3)
	if err != nil {
		one("op-error", "GetNextBatch (end probe): "+err.Error(), last)
		return
	}
	if len(again) > 0 {
		fail([]finding{{clause: "exactly-once", msg: fmt.Sprintf("after everything was handed out (%s), a reload hands out %s again", names(got), names(again))}}, model{}, false, last)
	}
	return
}

func histHash(hist []int) int {
	h := 7
	for _, a := range hist {
		h = (h*31 + a + 1) % 1000003
	}
	return h
}

type replay struct {
	Bound int             `json:"bound"`
	Hist  []int           `json:"hist"`
	Conc  []explore.Point `json:"conc,omitempty"` // concurrent part: the scheduler (and crash) choices
	CC    *concCfg        `json:"conc_cfg,omitempty"`
}

func TestCheck(t *testing.T) {
	if os.Getenv("C10_CONC_OUT") != "" { // child process of the concurrent part: one shard, result goes to the parent
		concShardMain(t)
		return
	}
	r := vf.Start("C10", "model_checking")
	// supplement (sampling, decides nothing): concurrent callers on the real sequencer, free-running under the race detector
	r.RacePass(vf.Pick(r, 5, 100), "github.com/evstack/ev-node/")
	depth := vf.Pick(r, 8, 12)
	bounds := vf.Pick(r, []int{2, 3}, []int{1, 2, 3, 4})
	acts := alphabet(r.Thorough())
	r.Assume = []string{
		"datastore contract: a single Put/Delete is atomic and durable and Query iterates in key order (badger), modelled by the logging KV double",
		"an empty answer of GetNextBatch means the queue is empty (drain probes stop at the first empty answer)",
		"concurrent part: atomicity grain of the schedules = [operation start .. Lock() entry], [Lock() .. datastore operation], [datastore operation .. next datastore operation or return]; code between two such points runs without interleaving (the queue has no other synchronisation than its mutex), memory effects are sequentially consistent",
		"concurrent part: a crash cut falls between two scheduling steps (i.e. before/after any datastore write, with any set of calls in flight); a call in flight at the crash never returned, so it may count as not applied or applied, a submission also as applied in memory only (seen by concurrent calls, gone with the crash): the statement speaks about acknowledged submissions and completed hand-outs only",
		"concurrent part: the order in which the running process would hand out the queued batches is the acceptance order a restart has to preserve (for submissions that overlapped in time the property fixes no order, but it must be the same one with and without a restart)",
		"an empty submission is neither an acceptance nor a rejection (model no-op, any return value)",
	}
	if r.ReplayPath() != "" {
		var rp replay
		if _, err := r.LoadReplay(&rp); err != nil {
			r.EngineError(err.Error())
		} else {
			if rp.CC != nil {
				world.EnablePreLockGates()
				explore.ReplayOne(rp.Conc, func(c *explore.Ctx) {
					o := concBody(t, c, *rp.CC)
					fmt.Printf("replay concurrent %+v: %s\n", *rp.CC, o.trace)
					if o.fail != nil {
						r.Report(vf.Violation{Clause: o.fail.Clause, Tags: o.tags, Msg: o.fail.Msg, History: rp})
					}
				})
				r.Finish(vf.Coverage{Evaluations: 1, DistinctNontrivial: 1})
				return
			}
			acts = alphabet(true) // superset; indices of the common actions agree
			res := runHistory(acts, rp.Bound, rp.Hist)
			fmt.Printf("replay bound=%d: %s\n", rp.Bound, strings.Join(res.trace, " ; "))
			for _, v := range res.viols {
				r.Report(vf.Violation{Clause: v.clause, Tags: v.tags, Msg: v.msg, Cost: len(rp.Hist), History: rp})
			}
		}
		r.Finish(vf.Coverage{Evaluations: 1, DistinctNontrivial: 1})
		return
	}
	world.EnablePreLockGates() // before any scheduled thread exists (only the concurrent part has threads)
	var total explore.BFSStats
	var caps []string
	perBound := map[string]any{}
	var accepted, rejected, delivered, crashes int64
	var cmu sync.Mutex
	complete, fixpoint := true, true
	deadline := vf.Pick(r, 40*time.Second, 14*time.Minute) / time.Duration(len(bounds))
	for _, bound := range bounds {
		st := explore.BFS(explore.BFSConfig{Depth: depth, Actions: len(acts), Deadline: deadline}, func(hist []int) explore.Step {
			res := runHistory(acts, bound, hist)
			if res.eng != "" {
				r.EngineError(res.eng)
				return explore.Step{Prune: true}
			}
			if res.prune {
				return explore.Step{Prune: true}
			}
			cmu.Lock()
			accepted += int64(res.stats.accepted)
			rejected += int64(res.stats.rejected)
			delivered += int64(res.stats.delivered)
			crashes += int64(res.stats.crashes)
			cmu.Unlock()
			if len(res.viols) > 0 {
				for _, v := range res.viols {
					r.Report(vf.Violation{Clause: v.clause, Tags: v.tags, Msg: fmt.Sprintf("queue size %d: %s\n history: %s", bound, v.msg, strings.Join(res.trace, " ; ")), Cost: len(hist), History: replay{Bound: bound, Hist: hist}})
				}
				return explore.Step{Prune: true}
			}
			if h := histHash(hist); len(hist) >= 4 && h%29 == 0 {
				r.Sample(fmt.Sprintf("queue size %d: %s", bound, strings.Join(res.trace, " ; ")))
			}
			r.Outcome(fmt.Sprintf("%d|%s", bound, res.key))
			return explore.Step{Key: res.key}
		})
		total.States += st.States
		total.Transitions += st.Transitions
		// fixpoint: a level without any new state means every reachable (non-violating) state has been expanded,
		// so all longer histories are covered as well
		fix := len(st.PerLevel) > 0 && st.PerLevel[len(st.PerLevel)-1] == 0 && st.Capped == ""
		if !fix {
			fixpoint = false
		}
		if !(st.DepthDone == depth || fix) {
			complete = false
		}
		if st.Capped != "" {
			caps = append(caps, fmt.Sprintf("queue size %d: %s", bound, st.Capped))
		}
		perBound[fmt.Sprintf("queue_size_%d", bound)] = map[string]any{"states": st.States, "transitions": st.Transitions, "depth_done": st.DepthDone, "fixpoint_reached": fix, "states_per_level": st.PerLevel}
	}
	// concurrent part (concurrent_test.go): thread programs x queue size x preloaded batches, every interleaving of
	// the scheduling steps (or delay-bounded), each ending in a fork live-vs-restart or in a crash cut. synctest
	// bubbles do not scale over goroutines, so the subtrees below each root execution are dealt out to processes.
	cr := runConcSharded(t, r.Thorough(), 16)
	for _, e := range cr.Engine {
		r.EngineError("concurrent part: " + e)
	}
	for _, v := range cr.Viol {
		r.Report(v)
	}
	for k, n := range cr.Outcomes {
		for i := 0; i < n; i++ {
			r.Outcome(k)
		}
	}
	caps = append(caps, cr.Caps...)
	concPer := map[string]any{}
	for _, k := range sortedKeys(cr.PerProg) {
		concPer[k] = cr.PerProg[k]
	}
	concBounds := concBoundsText(r.Thorough())
	r.Finish(vf.Coverage{
		Evaluations: total.Transitions + cr.Executions, DistinctNontrivial: total.States, States: total.States, Transitions: total.Transitions,
		Rule: "SEQUENTIAL: every operation history up to the depth bound over the alphabet (submit A / B / A again with identical bytes / C, submit empty, submit under a foreign chain id, next, reload = new sequencer on the same datastore image, crash before the k-th durable write of a submit or a next followed by reload), for each queue size, executed from scratch on the real single.Sequencer over the logging datastore double; every history ends with a full drain and a reload probe; a history whose oracle fails is reported and not extended; histories are merged when volatile queue state (all BatchQueue fields, by reflection hook), durable image and reference model agree (the sequencer has no other mutable state); distinct = distinct merged states. " +
			"CONCURRENT: for each thread program (submitters and a consumer calling the real Sequencer), queue size 1-3 and 0/1 batch carried over a restart beforehand: every interleaving (for the larger programs: every interleaving within the delay bound) of the threads' scheduling steps, where the start of an operation, the ENTRY of every Lock() of the queue mutex (also when it is free, so whatever an operation evaluates before taking the lock is a step of its own), a wait for the held mutex and every datastore operation are scheduling points. An execution that runs to quiescence is forked: the live instance is drained AND a sequencer restarted on a copy of the datastore is drained; oracle = concurrent history + live drain linearizable w.r.t. a bounded exactly-once FIFO (porcupine), restarted instance hands out the same batches in the same order as the live one (WAL == in-memory queue), nothing comes back after a further restart. With crash cuts, additionally at every scheduling point the process is killed with calls in flight and a sequencer restarted on the datastore as it is: for some fate of each in-flight call (not applied / applied / a submission also: applied in memory only), completed calls + crash + restart drain must be linearizable",
		Exhaustive: complete && len(caps) == 0, Caps: caps,
		Bounds: map[string]any{"depth": depth, "state_space_fixpoint_reached": fixpoint, "queue_sizes": bounds, "alphabet": len(acts), "per_queue_size": perBound,
			"concurrent": map[string]any{"queue_sizes": []int{1, 2, 3}, "preloaded_batches_carried_over_a_restart": []int{0, 1}, "crash_cuts_per_execution": "at most 1", "thread_programs": concBounds}},
		Extra: map[string]any{"concurrent_executions": cr.Executions, "concurrent_decision_points": cr.Points, "concurrent_processes": cr.Shards, "concurrent_per_thread_program": concPer, "concurrent_samples": cr.Samples,
			"submissions_accepted": accepted, "submissions_rejected": rejected, "batches_delivered_in_histories": delivered, "crashes_injected": crashes},
	})
}
