package c10

import (
	"bytes"
	"context"
	"encoding/hex"
	"fmt"
	"os"
	"sort"
	"strings"
	"sync"
	"testing"
	"time"

	logging "github.com/ipfs/go-log/v2"

	"google.golang.org/protobuf/proto"

	coresequencer "github.com/evstack/ev-node/core/sequencer"
	"github.com/evstack/ev-node/sequencers/single"
	pb "github.com/evstack/ev-node/types/pb/evnode/v1"

	"verif/harness/explore"
	"verif/harness/vf"
	"verif/harness/world"
)

// C10 — the single sequencer's batch queue is a durable FIFO with exactly-once delivery.
// Sequential part: explicit-state BFS over operation histories on the REAL single.Sequencer (queue.go, sequencer.go)
// over the logging datastore double world.KV (sorted Query like badger, write log, crash injection).
// Reference model: a slice of accepted-and-undelivered batches.
// quick: depth 8, queue sizes 2 and 3, batches A,B,C; thorough: depth 12, queue sizes 1..4, batches A,B,C,D.
// Every reload is judged on a twin built from the same datastore image (the live instance is not disturbed), a crash
// inside an operation settles the model on whichever of {applied, not applied} the twin shows, and every history
// ends with a full drain plus a reload probe (nothing handed out may come back). A history whose oracle fails is
// reported and not extended, so on a tree with a defect the search reaches a fixpoint of the defect-free states.
// Long lifetimes of one queue (hundreds of accepted batches, WAL sequence numbers across digit boundaries) are not
// reachable by the BFS; they are covered by deterministic long runs judged at every point, see longrun_test.go.
// Initial images: the whole search is repeated for every datastore that an EARLIER VERSION of the queue can have left
// behind with up to 2 (thorough: 3) pending batches: WAL records keyed by the hex content hash only (the format
// BatchQueue.Load still parses as "legacy"), see legacyImage.

const queuePrefix = "/batches" // sequencer.go: NewBatchQueue(db, "batches", …)

var (
	chainID   = []byte("c10")
	foreignID = []byte("c10-foreign")
	logger    = func() logging.EventLogger {
		_ = logging.SetLogLevel("c10", "fatal")
		l := logging.Logger("c10")
		_ = logging.SetLogLevel("c10", "fatal")
		return l
	}()
)

// batch ids
const (
	idA = iota
	idB
	idC
	idD // thorough tier only
	idF // only ever submitted under the foreign chain id
	idX // only ever pending in the initial image (legacy WAL record); content hash 0000000c…
	idY // legacy only; content hash ffffd982…
	idZ // legacy only (thorough tier); content hash 80001035…
	nIDs
	idUnknown = -1
)

var idNames = []string{"A", "B", "C", "D", "F", "X", "Y", "Z"}

func name(id int) string {
	if id >= 0 && id < nIDs {
		return idNames[id]
	}
	return "?"
}

func names(ids []int) string {
	s := make([]string, len(ids))
	for i, id := range ids {
		s[i] = name(id)
	}
	return "[" + strings.Join(s, ",") + "]"
}

// mkTxs builds a fresh copy of the batch contents on every call (no aliasing between submissions).
// C contains an empty transaction (round-trips through the protobuf WAL encoding as an empty element).
func mkTxs(id int) [][]byte {
	switch id {
	case idA:
		return [][]byte{[]byte("a1"), []byte("a2")}
	case idB:
		return [][]byte{[]byte("b")}
	case idC:
		return [][]byte{{}, []byte("c")}
	case idD:
		return [][]byte{[]byte("d1"), []byte("d2"), []byte("d3")}
	case idF:
		return [][]byte{[]byte("foreign")}
	// contents mined once so that the content hashes start with 0000000 / ffff / 8000 (checked in TestCheck)
	case idX:
		return [][]byte{[]byte("legacy-13485594")}
	case idY:
		return [][]byte{[]byte("legacy-42988")}
	case idZ:
		return [][]byte{[]byte("legacy-126104")}
	}
	panic("bad id")
}

// mkTxsAgain builds batch A's bytes along a different path (identical bytes, distinct allocation).
func mkTxsAgain() [][]byte {
	whole := []byte("a1a2")
	return [][]byte{append([]byte(nil), whole[:2]...), append([]byte(nil), whole[2:]...)}
}

func sameTxs(a, b [][]byte) bool {
	if len(a) != len(b) {
		return false
	}
	for i := range a {
		if !bytes.Equal(a[i], b[i]) {
			return false
		}
	}
	return true
}

// identify maps an answer of GetNextBatch to a batch id; ok=false for the empty answer.
func identify(b *coresequencer.Batch) (id int, ok bool) {
	if b == nil || len(b.Transactions) == 0 {
		return 0, false
	}
	for i := 0; i < nIDs; i++ {
		if sameTxs(b.Transactions, mkTxs(i)) {
			return i, true
		}
	}
	return idUnknown, true
}

var hashHex = func() [nIDs]string {
	var out [nIDs]string
	for i := 0; i < nIDs; i++ {
		b := coresequencer.Batch{Transactions: mkTxs(i)}
		h, err := b.Hash()
		if err != nil {
			panic(err)
		}
		out[i] = hex.EncodeToString(h)
	}
	return out
}()

// ---------------------------------------------------------------------------------------------------------------
// initial images: datastores written by an earlier version

// legacyImage builds the datastore an earlier version of the queue leaves behind with the given batches accepted and
// not yet handed out. That version's AddBatch wrote each accepted batch as ONE record <prefix>/<hex(content hash)> =
// protobuf Batch{txs} (no sequence number; git history of queue.go) and the current parseWALKey classifies exactly
// these names ('-' not at position 16) as records "written by earlier versions". Such an image is a SET of records:
// the order in which the earlier version accepted them is not recorded anywhere (and two byte-identical batches
// share one record), so the image is determined by the set of ids.
func legacyImage(ids []int) (map[string][]byte, error) {
	if len(ids) == 0 {
		return nil, nil
	}
	img := map[string][]byte{}
	for _, id := range ids {
		enc, err := proto.Marshal(&pb.Batch{Txs: mkTxs(id)})
		if err != nil {
			return nil, err
		}
		img[queuePrefix+"/"+hashHex[id]] = enc
	}
	return img, nil
}

// legacySets lists every set of at most max legacy records over the candidates, the empty set first.
// Candidates: X (hash 0000000c…: shares its first 7 characters with every sequence-numbered key and sorts below the
// hashes of A, B, C, D), Y (hash ffffd982…: sorts above all of them), A (same contents as the batch the alphabet
// submits, so a legacy record and a sequence-numbered record of byte-identical batches coexist), thorough also
// Z (hash 80001035…). No 64-digit hash can sort below a sequence-numbered key of a reachable sequence number
// (it would need 15 leading zero digits), so "below" and "above" are relative to the hash part and to each other.
func legacySets(cands []int, max int) [][]int {
	out := [][]int{nil}
	var rec func(start int, cur []int)
	rec = func(start int, cur []int) {
		for i := start; i < len(cands); i++ {
			next := append(append([]int(nil), cur...), cands[i])
			out = append(out, next)
			if len(next) < max {
				rec(i+1, next)
			}
		}
	}
	if max > 0 {
		rec(0, nil)
	}
	sort.SliceStable(out, func(i, j int) bool { return len(out[i]) < len(out[j]) })
	return out
}

// ---------------------------------------------------------------------------------------------------------------
// actions

type action struct {
	kind  string // submit, again, empty, foreign, next, reload, crashsubmit, crashnext
	id    int
	k     int
	label string
}

func alphabet(withD bool) []action {
	as := []action{
		{kind: "submit", id: idA, label: "submit(A)"},
		{kind: "submit", id: idB, label: "submit(B)"},
		{kind: "again", id: idA, label: "submit(A-again)"},
		{kind: "submit", id: idC, label: "submit(C)"},
		{kind: "empty", label: "submit(empty)"},
		{kind: "foreign", id: idF, label: "submit(F,foreign-chain-id)"},
		{kind: "next", label: "next"},
		{kind: "reload", label: "reload"},
	}
	for _, id := range []int{idA, idB} {
		for k := 0; k < 2; k++ {
			as = append(as, action{kind: "crashsubmit", id: id, k: k, label: fmt.Sprintf("submit(%s)+crash-before-write-%d+reload", name(id), k)})
		}
	}
	for k := 0; k < 2; k++ {
		as = append(as, action{kind: "crashnext", k: k, label: fmt.Sprintf("next+crash-before-write-%d+reload", k)})
	}
	if withD { // appended last so that replay indices of the common actions agree between the tiers
		as = append(as, action{kind: "submit", id: idD, label: "submit(D)"})
	}
	return as
}

// ---------------------------------------------------------------------------------------------------------------
// system under test

type sys struct {
	kv  *world.KV
	seq *single.Sequencer
}

func open(image map[string][]byte, bound int) (*sys, error) {
	kv := world.NewKV(image)
	seq, err := single.NewSequencerWithQueueSize(context.Background(), logger, kv, nil, chainID, time.Second, nil, true, bound)
	if err != nil {
		return nil, err
	}
	return &sys{kv: kv, seq: seq}, nil
}

func (s *sys) submit(id []byte, txs [][]byte) error {
	var b *coresequencer.Batch
	if txs != nil {
		b = &coresequencer.Batch{Transactions: txs}
	}
	_, err := s.seq.SubmitBatchTxs(context.Background(), coresequencer.SubmitBatchTxsRequest{Id: id, Batch: b})
	return err
}

// next returns (id, nonEmpty, err).
func (s *sys) next() (int, bool, error) {
	resp, err := s.seq.GetNextBatch(context.Background(), coresequencer.GetNextBatchRequest{Id: chainID})
	if err != nil {
		return 0, false, err
	}
	if resp == nil {
		return 0, false, fmt.Errorf("nil response without error")
	}
	id, ok := identify(resp.Batch)
	return id, ok, nil
}

// drain calls GetNextBatch until the first empty answer (at most limit non-empty answers are collected).
func (s *sys) drain(limit int) ([]int, error) {
	var out []int
	for len(out) < limit {
		id, ok, err := s.next()
		if err != nil {
			return out, err
		}
		if !ok {
			return out, nil
		}
		out = append(out, id)
	}
	return out, nil
}

func (s *sys) prefixImage() string {
	img := s.kv.Image()
	for k := range img {
		if !strings.HasPrefix(k, queuePrefix) {
			delete(img, k)
		}
	}
	return world.CanonImage(img)
}

// ---------------------------------------------------------------------------------------------------------------
// oracle

type viol struct {
	clause string
	tags   []string
	msg    string
}

type finding struct {
	clause  string
	msg     string
	missing []int // for durability / exactly-once(lost)
}

func count(xs []int) map[int]int {
	m := map[int]int{}
	for _, x := range xs {
		m[x]++
	}
	return m
}

func isSubsequence(sub, of []int) bool {
	j := 0
	for _, x := range of {
		if j < len(sub) && sub[j] == x {
			j++
		}
	}
	return j == len(sub)
}

// compare checks a complete drain `got` (everything the queue hands out from now on) against the model's
// accepted-and-undelivered list `want`. Clauses are evaluated independently:
//   - surplus (handed out more often than accepted and undelivered): "rejected-leaves-no-trace" for the batch that was
//     only ever submitted under a foreign chain id, otherwise "exactly-once";
//   - missing: "durability" when the drain directly follows a reload, otherwise "exactly-once" (never handed out);
//   - order: "fifo-order" when the answers (surplus occurrences dropped) are not a subsequence of the accepted order.
func compare(got, want []int, afterReload bool) []finding {
	var out []finding
	wc, gc := count(want), count(got)
	var surplus, missing []int
	for id := idUnknown; id < nIDs; id++ {
		for i := wc[id]; i < gc[id]; i++ {
			surplus = append(surplus, id)
		}
		for i := gc[id]; i < wc[id]; i++ {
			missing = append(missing, id)
		}
	}
	if len(surplus) > 0 {
		var foreign, other []int
		for _, id := range surplus {
			if id == idF {
				foreign = append(foreign, id)
			} else {
				other = append(other, id)
			}
		}
		if len(foreign) > 0 {
			out = append(out, finding{clause: "rejected-leaves-no-trace", msg: fmt.Sprintf("the batch submitted under a foreign chain id is handed out: answers %s, accepted and undelivered %s", names(got), names(want))})
		}
		if len(other) > 0 {
			out = append(out, finding{clause: "exactly-once", msg: fmt.Sprintf("handed out %s more often than accepted (reappeared or never accepted): answers %s, accepted and undelivered %s", names(other), names(got), names(want))})
		}
	}
	if len(missing) > 0 {
		if afterReload {
			out = append(out, finding{clause: "durability", missing: missing, msg: fmt.Sprintf("accepted and undelivered %s did not survive the reload: answers after reload %s, accepted and undelivered %s", names(missing), names(got), names(want))})
		} else {
			out = append(out, finding{clause: "exactly-once", missing: missing, msg: fmt.Sprintf("accepted %s never handed out: answers %s, accepted and undelivered %s", names(missing), names(got), names(want))})
		}
	}
	// order of what is legitimately there
	seen := map[int]int{}
	var legit []int
	for _, id := range got {
		if seen[id] < wc[id] {
			legit = append(legit, id)
		}
		seen[id]++
	}
	if !isSubsequence(legit, want) {
		out = append(out, finding{clause: "fifo-order", msg: fmt.Sprintf("answers %s are not in acceptance order %s", names(got), names(want))})
	}
	return out
}

// model is the boring reference.
type model struct {
	pending []int
	dup     uint16 // bit i: two byte-identical copies of batch i were pending at once and i has been pending ever since
	legacy0 int    // number of legacy records in the initial image
	nLegacy int    // how many of them are still pending (they are the head of pending)
}

func (m model) clone() model {
	return model{pending: append([]int(nil), m.pending...), dup: m.dup, legacy0: m.legacy0, nLegacy: m.nLegacy}
}

func (m *model) push(id int) {
	m.pending = append(m.pending, id)
	if count(m.pending)[id] >= 2 {
		m.dup |= 1 << uint(id)
	}
}

func (m *model) pop() {
	head := m.pending[0]
	m.pending = m.pending[1:]
	if m.nLegacy > 0 {
		m.nLegacy--
	}
	if count(m.pending)[head] == 0 {
		m.dup &^= 1 << uint(head)
	}
}

// hashOrderDiffers: ≥2 distinct pending batches whose content-hash order differs from their arrival order.
func hashOrderDiffers(pending []int) bool {
	var distinct []int
	seen := map[int]bool{}
	for _, id := range pending {
		if !seen[id] {
			seen[id] = true
			distinct = append(distinct, id)
		}
	}
	if len(distinct) < 2 {
		return false
	}
	byHash := append([]int(nil), distinct...)
	sort.Slice(byHash, func(i, j int) bool { return hashHex[byHash[i]] < hashHex[byHash[j]] })
	for i := range distinct {
		if distinct[i] != byHash[i] {
			return true
		}
	}
	return false
}

// Tags (history features):
//
//	identical-batches-queued  on a loss (durability / exactly-once-lost): every lost batch had two byte-identical
//	                          copies pending at the same time (and has been pending ever since); on other clauses:
//	                          some still pending batch had.
//	reload-with-2+-queued     the violation is observed directly after a reload (or crash+reload) that happened while
//	                          ≥2 distinct batches were pending whose content-hash order differs from arrival order.
//	legacy-records            the history starts from a datastore written by an earlier version (hash-only WAL keys).
//	legacy+new-pending        at the violation, legacy records and batches accepted by this version are pending.
//	has-reload / has-crash    informational.
func tagsFor(f finding, m model, atReload bool, acts []action, hist []int) []string {
	var tags []string
	if len(f.missing) > 0 {
		all := true
		for _, id := range f.missing {
			if id < 0 || m.dup&(1<<uint(id)) == 0 {
				all = false
			}
		}
		if all {
			tags = append(tags, "identical-batches-queued")
		}
	} else if m.dup != 0 {
		tags = append(tags, "identical-batches-queued")
	}
	if atReload && hashOrderDiffers(m.pending) {
		tags = append(tags, "reload-with-2+-queued")
	}
	if m.legacy0 > 0 {
		tags = append(tags, "legacy-records")
	}
	if m.nLegacy > 0 && len(m.pending) > m.nLegacy {
		tags = append(tags, "legacy+new-pending")
	}
	hasReload, hasCrash := false, false
	for _, ai := range hist {
		switch acts[ai].kind {
		case "reload":
			hasReload = true
		case "crashsubmit", "crashnext":
			hasCrash = true
		}
	}
	if hasReload {
		tags = append(tags, "has-reload")
	}
	if hasCrash {
		tags = append(tags, "has-crash")
	}
	return tags
}

type result struct {
	key   string
	prune bool
	viols []viol
	trace []string
	eng   string
	stats struct{ accepted, rejected, delivered, crashes int }
}

func runHistory(acts []action, bound int, legacy []int, hist []int) (res result) {
	img0, err := legacyImage(legacy)
	if err != nil {
		res.eng = "cannot build the initial image: " + err.Error()
		return
	}
	s, err := open(img0, bound)
	if err != nil {
		if len(legacy) == 0 {
			res.eng = "cannot build sequencer on an empty datastore: " + err.Error()
		} else {
			res.viols = append(res.viols, viol{clause: "op-error", tags: []string{"legacy-records"}, msg: fmt.Sprintf("cannot start on a datastore with the legacy records %s: %v", names(legacy), err)})
		}
		return
	}
	var m model
	fail := func(fs []finding, mm model, atReload bool, step int) {
		for _, f := range fs {
			res.viols = append(res.viols, viol{clause: f.clause, msg: f.msg, tags: tagsFor(f, mm, atReload, acts, hist[:step+1])})
		}
	}
	one := func(clause, msg string, step int) {
		fail([]finding{{clause: clause, msg: msg}}, m, false, step)
	}
	limit := func(want []int) int { return len(want) + 3 }

	if len(legacy) > 0 {
		// Start on a datastore of an earlier version. Its records were accepted before anything this version accepts,
		// so all of them must be handed out, once, before every batch accepted later; among themselves they have no
		// recorded order: ANY order is accepted, but it must be FIXED - the one the first restart shows is the one
		// the live instance, a second restart on the same image and every later reload have to show.
		m.legacy0 = len(legacy)
		res.trace = append(res.trace, "start on legacy image "+names(legacy))
		var orders [2][]int
		for i := range orders {
			twin, err := open(img0, bound)
			if err != nil {
				one("op-error", "restart on the legacy image: "+err.Error(), -1)
				return
			}
			if orders[i], err = twin.drain(limit(legacy)); err != nil {
				one("op-error", "GetNextBatch after restart on the legacy image: "+err.Error(), -1)
				return
			}
		}
		got := orders[0]
		// want = the legacy set, arranged in the observed order (so that compare judges presence only)
		var want []int
		left := count(legacy)
		for _, id := range got {
			if left[id] > 0 {
				left[id]--
				want = append(want, id)
			}
		}
		for _, id := range legacy {
			if left[id] > 0 {
				left[id]--
				want = append(want, id)
			}
		}
		if fs := compare(got, want, true); len(fs) > 0 {
			for i := range fs {
				fs[i].msg = "first start on the datastore of an earlier version: " + fs[i].msg
			}
			fail(fs, model{pending: want, legacy0: len(legacy), nLegacy: len(legacy)}, true, -1)
			return
		}
		if names(orders[0]) != names(orders[1]) {
			m.pending, m.nLegacy = want, len(want)
			one("fifo-order", fmt.Sprintf("two restarts on the same datastore of an earlier version hand out its records in different orders: %s vs %s", names(orders[0]), names(orders[1])), -1)
			return
		}
		for _, id := range got {
			m.push(id)
		}
		m.nLegacy = len(got)
	}

	for step, ai := range hist {
		a := acts[ai]
		res.trace = append(res.trace, a.label)
		switch a.kind {
		case "submit", "again":
			txs := mkTxs(a.id)
			if a.kind == "again" {
				txs = mkTxsAgain()
			}
			before := s.prefixImage()
			err := s.submit(chainID, txs)
			if err == nil {
				res.stats.accepted++
				m.push(a.id)
				if len(m.pending) > bound {
					one("bound", fmt.Sprintf("submission of %s accepted while %d batches were accepted and undelivered (bound %d)", name(a.id), len(m.pending)-1, bound), step)
					return
				}
			} else {
				res.stats.rejected++
				if len(m.pending) < bound {
					one("spurious-reject", fmt.Sprintf("well-formed submission of %s rejected (%v) with %d < bound %d accepted and undelivered", name(a.id), err, len(m.pending), bound), step)
					return
				}
				if after := s.prefixImage(); after != before {
					one("rejected-leaves-no-trace", fmt.Sprintf("rejected submission of %s (%v) changed the key space under %s:\n before %s\n after  %s", name(a.id), err, queuePrefix, before, after), step)
					return
				}
			}
		case "empty":
			// an empty submission is neither an accepted batch nor a rejection the statement speaks about: model no-op
			// (both shapes: a batch without transactions and no batch at all)
			_ = s.submit(chainID, [][]byte{})
			_ = s.submit(chainID, nil)
		case "foreign":
			before := s.prefixImage()
			err := s.submit(foreignID, mkTxs(a.id))
			if err == nil {
				one("rejected-leaves-no-trace", "submission under a foreign chain id was not rejected", step)
				return
			}
			res.stats.rejected++
			if after := s.prefixImage(); after != before {
				one("rejected-leaves-no-trace", fmt.Sprintf("submission under a foreign chain id (%v) changed the key space under %s:\n before %s\n after  %s", err, queuePrefix, before, after), step)
				return
			}
		case "next":
			id, ok, err := s.next()
			if err != nil {
				one("op-error", "GetNextBatch: "+err.Error(), step)
				return
			}
			switch {
			case !ok && len(m.pending) == 0:
			case ok && len(m.pending) > 0 && id == m.pending[0]:
				res.stats.delivered++
				m.pop()
			default:
				var got []int
				if ok {
					got = append(got, id)
					rest, _ := s.drain(limit(m.pending))
					got = append(got, rest...)
				}
				fs := compare(got, m.pending, false)
				if len(fs) == 0 {
					fs = []finding{{clause: "fifo-order", msg: fmt.Sprintf("answers %s, accepted and undelivered %s", names(got), names(m.pending))}}
				}
				fail(fs, m, false, step)
				return
			}
		case "reload":
			img := s.kv.Image()
			// peek: an identical twin built from the same image is drained; the live instance stays untouched
			twin, err := open(img, bound)
			if err != nil {
				one("op-error", "reload: "+err.Error(), step)
				return
			}
			got, err := twin.drain(limit(m.pending))
			if err != nil {
				one("op-error", "GetNextBatch after reload: "+err.Error(), step)
				return
			}
			if fs := compare(got, m.pending, true); len(fs) > 0 {
				fail(fs, m, true, step)
				return
			}
			if s, err = open(img, bound); err != nil {
				one("op-error", "reload: "+err.Error(), step)
				return
			}
		case "crashsubmit", "crashnext":
			base := s.kv.NumWrites()
			fired := false
			s.kv.OnWrite = func(idx int, w world.Write) bool {
				if idx-base == a.k {
					fired = true
					return true
				}
				return false
			}
			done := make(chan struct{})
			go func(s *sys) {
				defer close(done)
				if a.kind == "crashsubmit" {
					_ = s.submit(chainID, mkTxs(a.id))
				} else {
					_, _, _ = s.next()
				}
			}(s)
			<-done
			if !fired {
				// fewer than k+1 durable writes in this operation: same as the plain operation followed by reload
				res.prune = true
				return
			}
			res.stats.crashes++
			// the operation did not return: applied or not applied are both acceptable; everything accepted earlier
			// and not handed out must survive, nothing handed out earlier may reappear
			cands := []model{m.clone()}
			if a.kind == "crashsubmit" {
				if len(m.pending) < bound {
					c := m.clone()
					c.push(a.id)
					cands = append(cands, c)
				}
			} else if len(m.pending) > 0 {
				c := m.clone()
				c.pop()
				cands = append(cands, c)
			}
			img := s.kv.Image()
			twin, err := open(img, bound)
			if err != nil {
				one("op-error", "reload after crash: "+err.Error(), step)
				return
			}
			got, err := twin.drain(limit(cands[len(cands)-1].pending) + 1)
			if err != nil {
				one("op-error", "GetNextBatch after crash+reload: "+err.Error(), step)
				return
			}
			best, bestFs := -1, []finding(nil)
			for i, c := range cands {
				fs := compare(got, c.pending, true)
				if len(fs) == 0 {
					best, bestFs = i, nil
					break
				}
				if best < 0 || len(fs) < len(bestFs) {
					best, bestFs = i, fs
				}
			}
			if len(bestFs) > 0 {
				for i := range bestFs {
					bestFs[i].msg = fmt.Sprintf("after a crash inside %s (neither the applied nor the not-applied outcome fits): %s", a.label, bestFs[i].msg)
				}
				fail(bestFs, cands[best], true, step)
				return
			}
			m = cands[best]
			if s, err = open(img, bound); err != nil {
				one("op-error", "reload after crash: "+err.Error(), step)
				return
			}
		}
	}

	// canonical state, taken before the destructive end probes: volatile queue state (hook) + durable image + model
	res.key = fmt.Sprintf("mem{%s}|db{%s}|pending%v|dup%d", s.seq.VerifMemState(), s.kv.Canon(), m.pending, m.dup)

	// end probe 1: what the live instance hands out from now on is exactly the accepted-and-undelivered list
	last := len(hist) - 1
	got, err := s.drain(limit(m.pending))
	if err != nil {
		one("op-error", "GetNextBatch (drain): "+err.Error(), last)
		return
	}
	if fs := compare(got, m.pending, false); len(fs) > 0 {
		fail(fs, m, false, last)
		return
	}
	// end probe 2: everything has been handed out; nothing may reappear after a reload
	twin, err := open(s.kv.Image(), bound)
	if err != nil {
		one("op-error", "reload (end probe): "+err.Error(), last)
		return
	}
	again, err := twin.drain(3)
	if err != nil {
		one("op-error", "GetNextBatch (end probe): "+err.Error(), last)
		return
	}
	if len(again) > 0 {
		fail([]finding{{clause: "exactly-once", msg: fmt.Sprintf("after everything was handed out (%s), a reload hands out %s again", names(got), names(again))}}, model{legacy0: m.legacy0}, false, last)
	}
	return
}

func histHash(hist []int) int {
	h := 7
	for _, a := range hist {
		h = (h*31 + a + 1) % 1000003
	}
	return h
}

type replay struct {
	Bound  int             `json:"bound"`
	Legacy []int           `json:"legacy,omitempty"` // batch ids of the legacy records in the initial image
	Hist   []int           `json:"hist"`
	Conc   []explore.Point `json:"conc,omitempty"` // concurrent part: the scheduler (and crash) choices
	CC     *concCfg        `json:"conc_cfg,omitempty"`
	Long   *longCfg        `json:"long_run,omitempty"` // long-run part: the whole run is deterministic given its configuration
}

func TestCheck(t *testing.T) {
	if os.Getenv("C10_CONC_OUT") != "" { // child process of the concurrent part: one shard, result goes to the parent
		concShardMain(t)
		return
	}
	r := vf.Start("C10", "model_checking")
	// supplement (sampling, decides nothing): concurrent callers on the real sequencer, free-running under the race detector
	r.RacePass(vf.Pick(r, 5, 100), "github.com/evstack/ev-node/")
	depth := vf.Pick(r, 8, 12)
	bounds := vf.Pick(r, []int{2, 3}, []int{1, 2, 3, 4})
	acts := alphabet(r.Thorough())
	legacyCands := vf.Pick(r, []int{idX, idY, idA}, []int{idX, idY, idZ, idA})
	maxLegacy := vf.Pick(r, 2, 3)
	legacyDepth := vf.Pick(r, 8, 10) // depth bound of the searches that start from a non-empty legacy image
	for id, pre := range map[int]string{idX: "0000000", idY: "ffff", idZ: "8000"} {
		if !strings.HasPrefix(hashHex[id], pre) {
			r.EngineError(fmt.Sprintf("content hash of legacy batch %s is %s, expected prefix %s (Batch.Hash changed: re-mine the contents)", name(id), hashHex[id], pre))
		}
	}
	r.Assume = []string{
		"initial images: an earlier version of the queue wrote one WAL record per accepted batch under the hex content hash only (no sequence number) - the key shape BatchQueue.Load still classifies as legacy; such records were accepted before anything the running version accepts, they carry no arrival order among themselves (any FIXED order is accepted), and an image holds at most as many of them as the configured queue size",
		"datastore contract: a single Put/Delete is atomic and durable and Query iterates in key order (badger), modelled by the logging KV double",
		"an empty answer of GetNextBatch means the queue is empty (drain probes stop at the first empty answer)",
		"concurrent part: atomicity grain of the schedules = [operation start .. Lock() entry], [Lock() .. datastore operation], [datastore operation .. next datastore operation or return]; code between two such points runs without interleaving (the queue has no other synchronisation than its mutex), memory effects are sequentially consistent",
		"concurrent part: a crash cut falls between two scheduling steps (i.e. before/after any datastore write, with any set of calls in flight); a call in flight at the crash never returned, so it may count as not applied or applied, a submission also as applied in memory only (seen by concurrent calls, gone with the crash): the statement speaks about acknowledged submissions and completed hand-outs only",
		"concurrent part: the order in which the running process would hand out the queued batches is the acceptance order a restart has to preserve (for submissions that overlapped in time the property fixes no order, but it must be the same one with and without a restart)",
		"an empty submission is neither an acceptance nor a rejection (model no-op, any return value)",
	}
	if r.ReplayPath() != "" {
		var rp replay
		if _, err := r.LoadReplay(&rp); err != nil {
			r.EngineError(err.Error())
		} else {
			if rp.Long != nil {
				var st longStats
				viols, eng := runLong(*rp.Long, &st)
				fmt.Printf("replay %s: %d points, %d violations\n", *rp.Long, st.points, len(viols))
				if eng != "" {
					r.EngineError(eng)
				}
				for _, v := range viols {
					r.Report(vf.Violation{Clause: v.clause, Tags: v.tags, Msg: v.msg, Cost: rp.Long.N, History: rp})
				}
				r.Finish(vf.Coverage{Evaluations: 1, DistinctNontrivial: 1})
				return
			}
			if rp.CC != nil {
				world.EnablePreLockGates()
				explore.ReplayOne(rp.Conc, func(c *explore.Ctx) {
					o := concBody(t, c, *rp.CC)
					fmt.Printf("replay concurrent %+v: %s\n", *rp.CC, o.trace)
					if o.fail != nil {
						r.Report(vf.Violation{Clause: o.fail.Clause, Tags: o.tags, Msg: o.fail.Msg, History: rp})
					}
				})
				r.Finish(vf.Coverage{Evaluations: 1, DistinctNontrivial: 1})
				return
			}
			acts = alphabet(true) // superset; indices of the common actions agree
			res := runHistory(acts, rp.Bound, rp.Legacy, rp.Hist)
			fmt.Printf("replay bound=%d legacy=%s: %s\n", rp.Bound, names(rp.Legacy), strings.Join(res.trace, " ; "))
			for _, v := range res.viols {
				r.Report(vf.Violation{Clause: v.clause, Tags: v.tags, Msg: v.msg, Cost: len(rp.Hist), History: rp})
			}
		}
		r.Finish(vf.Coverage{Evaluations: 1, DistinctNontrivial: 1})
		return
	}
	world.EnablePreLockGates() // before any scheduled thread exists (only the concurrent part has threads)
	var total explore.BFSStats
	var caps []string
	perBound := map[string]any{}
	var accepted, rejected, delivered, crashes int64
	var cmu sync.Mutex
	complete, fixpoint := true, true
	// one search per (queue size, initial image); the time budget of the sequential part is shared: every search
	// may use an equal share of what is left
	type job struct {
		bound  int
		legacy []int
	}
	var jobs []job
	for _, bound := range bounds {
		for _, legacy := range legacySets(legacyCands, maxLegacy) {
			if len(legacy) <= bound {
				jobs = append(jobs, job{bound, legacy})
			}
		}
	}
	budget := vf.Pick(r, 40*time.Second, 14*time.Minute)
	seqStart := time.Now()
	perImage := map[string]any{}
	var legacyStates, legacyTransitions int64
	legacyImages := map[string]bool{}
	for ji, j := range jobs {
		bound, legacy := j.bound, j.legacy
		d := depth
		if len(legacy) > 0 {
			d = legacyDepth
		}
		deadline := (budget - time.Since(seqStart)) / time.Duration(len(jobs)-ji)
		if deadline < time.Second {
			deadline = time.Second
		}
		report := func(res result, hist []int) {
			for _, v := range res.viols {
				start := ""
				if len(legacy) > 0 {
					start = fmt.Sprintf(", datastore of an earlier version with pending %s", names(legacy))
				}
				r.Report(vf.Violation{Clause: v.clause, Tags: v.tags, Msg: fmt.Sprintf("queue size %d%s: %s\n history: %s", bound, start, v.msg, strings.Join(res.trace, " ; ")), Cost: len(hist), History: replay{Bound: bound, Legacy: legacy, Hist: hist}})
			}
		}
		if len(legacy) > 0 {
			// the start itself is judged once; if it fails there is nothing to extend
			if res := runHistory(acts, bound, legacy, nil); res.eng != "" || len(res.viols) > 0 {
				if res.eng != "" {
					r.EngineError(res.eng)
				}
				report(res, nil)
				total.Transitions++
				legacyTransitions++
				continue
			}
		}
		st := explore.BFS(explore.BFSConfig{Depth: d, Actions: len(acts), Deadline: deadline}, func(hist []int) explore.Step {
			res := runHistory(acts, bound, legacy, hist)
			if res.eng != "" {
				r.EngineError(res.eng)
				return explore.Step{Prune: true}
			}
			if res.prune {
				return explore.Step{Prune: true}
			}
			cmu.Lock()
			accepted += int64(res.stats.accepted)
			rejected += int64(res.stats.rejected)
			delivered += int64(res.stats.delivered)
			crashes += int64(res.stats.crashes)
			cmu.Unlock()
			if len(res.viols) > 0 {
				report(res, hist)
				return explore.Step{Prune: true}
			}
			if h := histHash(hist); len(hist) >= 4 && (h+len(legacy)*7)%29 == 0 && (len(legacy) == 0 || h%3 == 0) {
				r.Sample(fmt.Sprintf("queue size %d: %s", bound, strings.Join(res.trace, " ; ")))
			}
			r.Outcome(fmt.Sprintf("%d|%s|%s", bound, names(legacy), res.key))
			return explore.Step{Key: res.key}
		})
		total.States += st.States
		total.Transitions += st.Transitions
		// fixpoint: a level without any new state means every reachable (non-violating) state has been expanded,
		// so all longer histories are covered as well
		fix := len(st.PerLevel) > 0 && st.PerLevel[len(st.PerLevel)-1] == 0 && st.Capped == ""
		if !fix {
			fixpoint = false
		}
		if !(st.DepthDone == d || fix) {
			complete = false
		}
		where := fmt.Sprintf("queue size %d", bound)
		if len(legacy) > 0 {
			where += ", legacy image " + names(legacy)
		}
		if st.Capped != "" {
			caps = append(caps, where+": "+st.Capped)
		}
		if len(legacy) == 0 {
			perBound[fmt.Sprintf("queue_size_%d", bound)] = map[string]any{"states": st.States, "transitions": st.Transitions, "depth_done": st.DepthDone, "fixpoint_reached": fix, "states_per_level": st.PerLevel}
		} else {
			legacyStates += st.States
			legacyTransitions += st.Transitions
			legacyImages[names(legacy)] = true
			perImage[fmt.Sprintf("queue_size_%d/legacy%s", bound, names(legacy))] = map[string]any{"states": st.States, "transitions": st.Transitions, "depth_done": st.DepthDone, "fixpoint_reached": fix}
		}
	}
	var imageNames []string
	for k := range legacyImages {
		imageNames = append(imageNames, k)
	}
	sort.Strings(imageNames)
	// long-run part (longrun_test.go): long lifetimes of one queue, deterministic runs, judged at every point
	longStart := time.Now()
	ls, longBounds := runLongRuns(r)
	fmt.Printf("long-run part: %d runs, %d points, %d forks in %.1fs\n", ls.runs, ls.points, ls.forks, time.Since(longStart).Seconds())
	// concurrent part (concurrent_test.go): thread programs x queue size x preloaded batches, every interleaving of
	// the scheduling steps (or delay-bounded), each ending in a fork live-vs-restart or in a crash cut. synctest
	// bubbles do not scale over goroutines, so the subtrees below each root execution are dealt out to processes.
	cr := runConcSharded(t, r.Thorough(), 16)
	for _, e := range cr.Engine {
		r.EngineError("concurrent part: " + e)
	}
	for _, v := range cr.Viol {
		r.Report(v)
	}
	for k, n := range cr.Outcomes {
		for i := 0; i < n; i++ {
			r.Outcome(k)
		}
	}
	caps = append(caps, cr.Caps...)
	concPer := map[string]any{}
	for _, k := range sortedKeys(cr.PerProg) {
		concPer[k] = cr.PerProg[k]
	}
	concBounds := concBoundsText(r.Thorough())
	r.Finish(vf.Coverage{
		Evaluations: total.Transitions + cr.Executions + ls.points + ls.forks, DistinctNontrivial: total.States, States: total.States, Transitions: total.Transitions,
		Rule: "SEQUENTIAL: every operation history up to the depth bound over the alphabet (submit A / B / A again with identical bytes / C, submit empty, submit under a foreign chain id, next, reload = new sequencer on the same datastore image, crash before the k-th durable write of a submit or a next followed by reload), for each queue size, executed from scratch on the real single.Sequencer over the logging datastore double; each search is run from the empty datastore AND from every datastore image an earlier version of the queue can have left behind with up to 2 (thorough 3) accepted-and-undelivered batches out of the candidate records (WAL records keyed by the hex content hash only: hashes below / above / equal to those of the batches submitted later, one sharing 7 leading zeros with the sequence-numbered keys), where the reference model takes the order of the legacy records from the first restart (any order, but a second restart, the live instance and every later reload must show the same one) and puts everything accepted later behind them; every history ends with a full drain and a reload probe; a history whose oracle fails is reported and not extended; histories are merged when volatile queue state (all BatchQueue fields, by reflection hook), durable image and reference model agree (the sequencer has no other mutable state); distinct = distinct merged states. " +
			"LONG RUNS (no state search; lifetimes of one queue far beyond the histories of the BFS): deterministic runs on the real single.Sequencer that accept N batches (acceptance numbers 0..N-1, i.e. WAL sequence numbers across every hex/decimal digit boundary below N) with next interleaved so that the accepted-and-undelivered window [a..b] slides over all acceptance numbers with a fixed width (and one run per contents scheme without any next: window [0..k]); contents all distinct or repeating with a period (period 1: all batches byte-identical); at EVERY point of a run (after every submit and every next): (1) a sequencer reloaded from a copy of the datastore must hand out exactly the window in acceptance order and nothing after a further reload, (2) for one fresh content and for the contents of every window position (first/last 4 beyond 8) a reloaded sequencer accepts one more batch with these contents, then both its own drain and the drain of another reload of it must be window + that batch (WAL key reuse), (3) in half of the runs the reloaded instance replaces the live one at every point (sequence number recomputed from the WAL at every step), in the other half the live instance runs through; every next must return the head of the window; each run ends with a full drain and a reload probe; a run stops at its first failing point. " +
			"CONCURRENT: for each thread program (submitters and a consumer calling the real Sequencer), queue size 1-3 and 0/1 batch carried over a restart beforehand: every interleaving (for the larger programs: every interleaving within the delay bound) of the threads' scheduling steps, where the start of an operation, the ENTRY of every Lock() of the queue mutex (also when it is free, so whatever an operation evaluates before taking the lock is a step of its own), a wait for the held mutex and every datastore operation are scheduling points. An execution that runs to quiescence is forked: the live instance is drained AND a sequencer restarted on a copy of the datastore is drained; oracle = concurrent history + live drain linearizable w.r.t. a bounded exactly-once FIFO (porcupine), restarted instance hands out the same batches in the same order as the live one (WAL == in-memory queue), nothing comes back after a further restart. With crash cuts, additionally at every scheduling point the process is killed with calls in flight and a sequencer restarted on the datastore as it is: for some fate of each in-flight call (not applied / applied / a submission also: applied in memory only), completed calls + crash + restart drain must be linearizable",
		Exhaustive: complete && len(caps) == 0, Caps: caps,
		Bounds: map[string]any{"depth": depth, "state_space_fixpoint_reached": fixpoint, "queue_sizes": bounds, "alphabet": len(acts), "per_queue_size": perBound,
			"legacy_images": map[string]any{"records_per_image": fmt.Sprintf("0..%d (at most the queue size)", maxLegacy), "candidate_records": names(legacyCands), "content_hashes": map[string]string{"X": hashHex[idX], "Y": hashHex[idY], "Z": hashHex[idZ], "A": hashHex[idA]},
				"images": imageNames, "depth": legacyDepth, "states": legacyStates, "transitions": legacyTransitions, "per_queue_size_and_image": perImage},
			"long_runs":  longBounds,
			"concurrent": map[string]any{"queue_sizes": []int{1, 2, 3}, "preloaded_batches_carried_over_a_restart": []int{0, 1}, "crash_cuts_per_execution": "at most 1", "thread_programs": concBounds}},
		Extra: map[string]any{"concurrent_executions": cr.Executions, "concurrent_decision_points": cr.Points, "concurrent_processes": cr.Shards, "concurrent_per_thread_program": concPer, "concurrent_samples": cr.Samples,
			"long_runs":            map[string]any{"runs": ls.runs, "points_judged": ls.points, "reloads": ls.reloads, "resubmission_forks": ls.forks, "batches_accepted": ls.accepted, "batches_delivered_by_live_instances": ls.delivered, "highest_acceptance_number": ls.maxSeq},
			"submissions_accepted": accepted, "submissions_rejected": rejected, "batches_delivered_in_histories": delivered, "crashes_injected": crashes},
	})
}
