package c10

import (
	"bytes"
	"context"
	"encoding/json"
	"fmt"
	"os"
	"os/exec"
	"path/filepath"
	"sort"
	"strings"
	"sync"
	"sync/atomic"
	"testing"
	"testing/synctest"
	"time"

	"github.com/anishathalye/porcupine"

	coreseq "github.com/evstack/ev-node/core/sequencer"
	"github.com/evstack/ev-node/sequencers/single"

	"verif/harness/explore"
	"verif/harness/vf"
	"verif/harness/world"
)

// Concurrent part of C10: submitters and a consumer call the REAL single.Sequencer concurrently. The queue's mutex
// (overlay copy of sequencers/single with the lock shim) and every datastore operation are gates of the cooperative
// scheduler; in addition the ENTRY of every Lock() is a gate (world.GateLocks), also when the lock is free, and so is
// the start of every operation. One step of a thread is therefore one of
//
//	[call .. Lock() entry]   everything an operation evaluates before it asks for the queue lock
//	[Lock() .. datastore op] / [datastore op .. next datastore op or return]   pieces of the critical section
//
// and the explorer enumerates the interleavings of these steps (all of them for the small thread programs,
// delay-bounded for the larger ones). In particular "X evaluates everything before Lock(), Y runs one or more whole
// operations, X continues" is a schedule of its own (counted in the evidence as pre-lock separations).
//
// Each execution ends in one of two ways:
//
//   - quiescence (all threads returned): the process is FORKED. One future drains the live instance, the other opens
//     a new sequencer on a copy of the datastore (restart) and drains that. Oracle: (1) the concurrent history followed
//     by the live drain is linearizable w.r.t. a bounded FIFO with exactly-once delivery (porcupine); (2) the restarted
//     instance hands out exactly what the live instance hands out, in the same order (the acceptance order is fixed
//     when the submissions are acknowledged, a restart must not change it: WAL contents == in-memory queue);
//     (3) after either drain a further restart hands out nothing.
//   - crash cut (choice class "crash", at most one, at any scheduling point): the process dies with operations in
//     flight; a new sequencer is opened on the datastore as it is and drained. Oracle: for SOME fate of every
//     in-flight call (not applied / applied with unknown result / for a submission also: applied in memory only, i.e.
//     visible to concurrent calls until the crash but not durable), completed operations + crash + restart drain are
//     linearizable: every acknowledged submission is handed out exactly once across the crash, nothing handed out
//     comes back, order is acceptance order.
type qIn struct {
	submit bool
	id     string
	wild   bool // in flight when the process crashed: applied with unknown result
	// volatile (wild submissions only): applied in memory, where concurrent calls could see it (it occupies a slot and
	// can be handed out), but not durable: it vanishes with the crash. The property speaks about accepted
	// (acknowledged) batches only, so this is a legal fate of a submission that never returned.
	volatile bool
	crash    bool // the crash itself: volatile entries vanish
}
type qOut struct {
	ok bool   // submit accepted
	id string // next: batch id or "" for empty
}

func fifoModel(bound int) porcupine.Model {
	return porcupine.Model{
		Init: func() interface{} { return "" }, // queue as "A,B"
		Step: func(state, input, output interface{}) (bool, interface{}) {
			q := []string{}
			if s := state.(string); s != "" {
				q = strings.Split(s, ",")
			}
			in, out := input.(qIn), output.(qOut)
			if in.crash {
				var kept []string
				for _, e := range q {
					if !strings.HasSuffix(e, "~") {
						kept = append(kept, e)
					}
				}
				return true, strings.Join(kept, ",")
			}
			if in.wild {
				if in.submit {
					if len(q) >= bound {
						return true, state
					}
					id := in.id
					if in.volatile {
						id += "~" // entries marked ~ are in memory only
					}
					return true, strings.Join(append(append([]string{}, q...), id), ",")
				}
				if len(q) == 0 {
					return true, state
				}
				return true, strings.Join(q[1:], ",")
			}
			if in.submit {
				if len(q) >= bound {
					return !out.ok, state
				}
				if !out.ok {
					return false, state
				}
				return true, strings.Join(append(append([]string{}, q...), in.id), ",")
			}
			if len(q) == 0 {
				return out.id == "", state
			}
			if out.id != strings.TrimSuffix(q[0], "~") {
				return false, state
			}
			return true, strings.Join(q[1:], ",")
		},
		Equal: func(a, b interface{}) bool { return a.(string) == b.(string) },
		DescribeOperation: func(input, output interface{}) string {
			in, out := input.(qIn), output.(qOut)
			if in.crash {
				return "crash"
			}
			if in.wild {
				if in.submit {
					return fmt.Sprintf("submit(%s)->in-flight", in.id)
				}
				return "next()->in-flight"
			}
			if in.submit {
				return fmt.Sprintf("submit(%s)->%v", in.id, out.ok)
			}
			return fmt.Sprintf("next()->%q", out.id)
		},
	}
}

// ---------------------------------------------------------------------------------------------------------------
// thread programs

type concThread struct {
	name string
	ops  []qIn
}

type concProg struct {
	name    string
	threads []concThread
	delay   [2]int // delay bound quick / thorough; -1 = every interleaving
	crash   [2]bool
	tier    int // 0 = both tiers, 1 = thorough only
}

func sub(ids ...string) []qIn {
	var out []qIn
	for _, id := range ids {
		out = append(out, qIn{submit: true, id: id})
	}
	return out
}
func nexts(n int) []qIn { return make([]qIn, n) }

// concProgs: indices are part of replay files, append only.
var concProgs = []concProg{
	{name: "2 submitters (A | C)", threads: []concThread{{"submitter-1", sub("A")}, {"submitter-2", sub("C")}}, delay: [2]int{-1, -1}, crash: [2]bool{true, true}},
	{name: "2 submitters, identical contents (A | A)", threads: []concThread{{"submitter-1", sub("A")}, {"submitter-2", sub("A")}}, delay: [2]int{-1, -1}, crash: [2]bool{true, true}},
	{name: "submitter and consumer (A | next)", threads: []concThread{{"submitter-1", sub("A")}, {"consumer", nexts(1)}}, delay: [2]int{-1, -1}, crash: [2]bool{true, true}},
	{name: "3 submitters (A | B | C)", threads: []concThread{{"submitter-1", sub("A")}, {"submitter-2", sub("B")}, {"submitter-3", sub("C")}}, delay: [2]int{-1, -1}, crash: [2]bool{false, true}},
	{name: "2 submitters and consumer (A | C | next)", threads: []concThread{{"submitter-1", sub("A")}, {"submitter-2", sub("C")}, {"consumer", nexts(1)}}, delay: [2]int{-1, -1}, crash: [2]bool{false, true}},
	{name: "2 submitters x 2 (A,B | C,A)", threads: []concThread{{"submitter-1", sub("A", "B")}, {"submitter-2", sub("C", "A")}}, delay: [2]int{-1, -1}, crash: [2]bool{false, true}},
	{name: "2 submitters and consumer (A,B | C | next,next)", threads: []concThread{{"submitter-1", sub("A", "B")}, {"submitter-2", sub("C")}, {"consumer", nexts(2)}}, delay: [2]int{4, 7}, crash: [2]bool{true, true}},
	{name: "2 submitters, identical contents, and consumer (A,B | A | next,next)", threads: []concThread{{"submitter-1", sub("A", "B")}, {"submitter-2", sub("A")}, {"consumer", nexts(2)}}, delay: [2]int{4, 7}, crash: [2]bool{true, true}},
	{name: "2 submitters and consumer, identical contents (A | A | next)", threads: []concThread{{"submitter-1", sub("A")}, {"submitter-2", sub("A")}, {"consumer", nexts(1)}}, delay: [2]int{-1, -1}, crash: [2]bool{false, true}, tier: 1},
	{name: "submitter and 2 consumers (A | next | next)", threads: []concThread{{"submitter-1", sub("A")}, {"consumer-1", nexts(1)}, {"consumer-2", nexts(1)}}, delay: [2]int{-1, -1}, crash: [2]bool{false, true}},
	{name: "3 submitters and consumer (A | B | A | next,next)", threads: []concThread{{"submitter-1", sub("A")}, {"submitter-2", sub("B")}, {"submitter-3", sub("A")}, {"consumer", nexts(2)}}, delay: [2]int{5, 5}, crash: [2]bool{true, true}, tier: 1},
	{name: "2 submitters and consumer (A,B | C | next), every interleaving", threads: []concThread{{"submitter-1", sub("A", "B")}, {"submitter-2", sub("C")}, {"consumer", nexts(1)}}, delay: [2]int{-1, -1}, crash: [2]bool{false, false}, tier: 1},
}

type concCfg struct {
	Prog  int  `json:"prog"`
	Bound int  `json:"bound"`
	Pre   int  `json:"pre"`   // batches "P" accepted sequentially and carried over a restart before the threads start
	Crash bool `json:"crash"` // crash cuts enabled
}

type concOutcome struct {
	fail     *world.Fail
	tags     []string
	trace    string // with timestamps (messages)
	key      string // outcome without timestamps
	crashed  bool
	overlap  bool // two submissions overlapped in time
	preLock  bool // some thread sat between its pre-lock evaluation and its Lock() while another thread ran a whole operation
	inflight int
	steps    int
}

func concBody(t *testing.T, c *explore.Ctx, cfg concCfg) (out concOutcome) {
	synctest.Test(t, func(t *testing.T) { out = concBubble(c, cfg) })
	return
}

type inflightOp struct {
	client int
	in     qIn
	call   int64
}

func nextID(resp *coreseq.GetNextBatchResponse, err error) string {
	if err == nil && resp != nil && resp.Batch != nil && len(resp.Batch.Transactions) > 0 {
		return string(resp.Batch.Transactions[0])
	}
	return ""
}

func concBubble(c *explore.Ctx, cfg concCfg) (out concOutcome) {
	prog := concProgs[cfg.Prog]
	bound := cfg.Bound
	sched := world.NewSched(func(n int, names []string) int { return c.Choose("sched", n) })
	undo := sched.GateLocks()
	defer undo()
	defer sched.Off()
	ctx := context.Background()
	engine := func(msg string) concOutcome {
		return concOutcome{fail: &world.Fail{Clause: "engine", Msg: msg}}
	}
	var clock atomic.Int64
	var ops []porcupine.Operation
	nSubmits := cfg.Pre
	for _, th := range prog.threads {
		for _, in := range th.ops {
			if in.submit {
				nSubmits++
			}
		}
	}
	open := func(image map[string][]byte) (*world.KV, *single.Sequencer, error) {
		kv := world.NewKV(image)
		seq, err := single.NewSequencerWithQueueSize(ctx, world.Logger, kv, nil, []byte(chainID), 0, nil, true, bound)
		return kv, seq, err
	}
	submitTo := func(seq *single.Sequencer, id string) error {
		_, err := seq.SubmitBatchTxs(ctx, coreseq.SubmitBatchTxsRequest{Id: []byte(chainID), Batch: &coreseq.Batch{Transactions: [][]byte{[]byte(id)}}})
		return err
	}
	// drainOps drains an instance until the first empty answer and returns the answers as operations of client 100.
	drainOps := func(seq *single.Sequencer) (ids []string, dops []porcupine.Operation) {
		for i := 0; i < nSubmits+2; i++ {
			call := clock.Add(1)
			id := nextID(seq.GetNextBatch(ctx, coreseq.GetNextBatchRequest{Id: []byte(chainID)}))
			dops = append(dops, porcupine.Operation{ClientId: 100, Input: qIn{}, Call: call, Output: qOut{id: id}, Return: clock.Add(1)})
			if id == "" {
				break
			}
			ids = append(ids, id)
		}
		return
	}

	// sequential prologue: Pre batches accepted by an earlier incarnation and carried over a restart
	var image map[string][]byte
	if cfg.Pre > 0 {
		kv0, seq0, err := open(nil)
		if err != nil {
			return engine(err.Error())
		}
		for i := 0; i < cfg.Pre; i++ {
			call := clock.Add(1)
			err := submitTo(seq0, "P")
			ops = append(ops, porcupine.Operation{ClientId: 99, Input: qIn{submit: true, id: "P"}, Call: call, Output: qOut{ok: err == nil}, Return: clock.Add(1)})
		}
		image = kv0.Image()
	}
	kv, seq, err := open(image)
	if err != nil {
		return engine(err.Error())
	}
	kv.Gate = sched.Gate

	var (
		mu   sync.Mutex
		done []porcupine.Operation
		cur  = map[int]*inflightOp{}
		dead atomic.Bool
	)
	for ti, th := range prog.threads {
		ti, th := ti, th
		sched.Go(th.name, func() {
			for i, in := range th.ops {
				if i > 0 {
					sched.Gate("op") // the start of an operation is a scheduling point of its own
				}
				if dead.Load() {
					return
				}
				call := clock.Add(1)
				mu.Lock()
				cur[ti] = &inflightOp{client: ti, in: in, call: call}
				mu.Unlock()
				var o qOut
				if in.submit {
					o.ok = submitTo(seq, in.id) == nil
				} else {
					o.id = nextID(seq.GetNextBatch(ctx, coreseq.GetNextBatchRequest{Id: []byte(chainID)}))
				}
				if dead.Load() {
					return // the process died while this call was in flight (it went on only because the gates are off)
				}
				mu.Lock()
				delete(cur, ti)
				done = append(done, porcupine.Operation{ClientId: ti, Input: in, Call: call, Output: o, Return: clock.Add(1)})
				mu.Unlock()
			}
		})
	}
	if cfg.Crash {
		sched.Interrupt = func() bool { return c.Choose("crash", 2) == 1 }
	}
	sched.Drain()
	m := fifoModel(bound)
	describe := func(list []porcupine.Operation) string {
		var sb strings.Builder
		for _, op := range list {
			fmt.Fprintf(&sb, "[%d..%d c%d %s] ", op.Call, op.Return, op.ClientId, m.DescribeOperation(op.Input, op.Output))
		}
		return sb.String()
	}
	short := func(list []porcupine.Operation) string {
		var sb strings.Builder
		for _, op := range list {
			fmt.Fprintf(&sb, "c%d:%s ", op.ClientId, m.DescribeOperation(op.Input, op.Output))
		}
		return sb.String()
	}
	out.tags = []string{"concurrent"}
	identical := map[string]int{}
	for _, th := range prog.threads {
		for _, in := range th.ops {
			if in.submit {
				identical[in.id]++
			}
		}
	}
	for _, n := range identical {
		if n > 1 {
			out.tags = append(out.tags, "identical-contents-submitted")
			break
		}
	}

	if sched.Interrupted {
		// ---- crash cut -------------------------------------------------------------------------------------------
		out.crashed = true
		out.tags = append(out.tags, "crash-cut")
		dead.Store(true)
		kv.Fate.Kill() // no datastore operation is applied from here on
		img := kv.Image()
		crashT := clock.Add(1)
		mu.Lock()
		ops = append(ops, done...)
		var wild []porcupine.Operation
		for ti := range prog.threads {
			if f := cur[ti]; f != nil {
				in := f.in
				in.wild = true
				wild = append(wild, porcupine.Operation{ClientId: f.client, Input: in, Call: f.call, Output: qOut{}, Return: crashT})
			}
		}
		mu.Unlock()
		sched.Off()
		synctest.Wait()
		out.inflight = len(wild)
		out.steps = sched.Steps
		out.overlap, out.preLock = scheduleFeatures(sched.Trace, append(append([]porcupine.Operation{}, ops...), wild...))
		kv2, seq2, err := open(img)
		if err != nil {
			out.fail = &world.Fail{Clause: "durability", Msg: "restart after the crash failed: " + err.Error()}
			return
		}
		crashOp := porcupine.Operation{ClientId: 98, Input: qIn{crash: true}, Call: clock.Add(1), Output: qOut{}, Return: clock.Add(1)}
		got, dops := drainOps(seq2)
		out.trace = describe(ops) + "| CRASH, in flight: " + describe(wild) + "| restart hands out " + fmt.Sprint(got)
		out.key = fmt.Sprintf("p%d b%d pre%d %s| crash in-flight %s| restart %v", cfg.Prog, bound, cfg.Pre, short(ops), short(wild), got)
		// every fate of the in-flight calls: a submission is not applied / applied and durable / applied in memory only,
		// a next is not applied / applied
		okAny := false
		fates := 1
		for _, w := range wild {
			if w.Input.(qIn).submit {
				fates *= 3
			} else {
				fates *= 2
			}
		}
		for f := 0; f < fates && !okAny; f++ {
			h := append([]porcupine.Operation{}, ops...)
			x := f
			for _, w := range wild {
				in := w.Input.(qIn)
				n := 2
				if in.submit {
					n = 3
				}
				fate := x % n
				x /= n
				if fate == 0 {
					continue
				}
				in.volatile = fate == 2
				w.Input = in
				h = append(h, w)
			}
			h = append(h, crashOp)
			h = append(h, dops...)
			okAny = porcupine.CheckOperations(m, h)
		}
		if !okAny {
			out.fail = &world.Fail{Clause: crashClause(ops, wild, got, bound), Msg: "crash with operations in flight, then restart on the datastore as it was: whichever fate the in-flight calls are given (not applied / applied / for a submission: applied in memory only), the completed operations followed by what the restarted sequencer hands out are not a bounded FIFO with exactly-once delivery: " + out.trace}
			return
		}
		if again := reloadDrain(open, kv2, drainOps); len(again) > 0 {
			out.fail = &world.Fail{Clause: "exactly-once", Msg: fmt.Sprintf("after the restarted sequencer handed out everything (%v), a further restart hands out %v again: %s", got, again, out.trace)}
		}
		return
	}

	// ---- quiescence: fork into "keep running" and "restart" ----------------------------------------------------
	if alive := sched.Alive(); len(alive) > 0 {
		out.fail = &world.Fail{Clause: "deadlock", Msg: fmt.Sprintf("threads never finished: %v (blocked: %v)", alive, sched.Blocked())}
		return
	}
	out.steps = sched.Steps
	mu.Lock()
	ops = append(ops, done...)
	mu.Unlock()
	out.overlap, out.preLock = scheduleFeatures(sched.Trace, ops)
	if out.overlap {
		out.tags = append(out.tags, "overlapping-submissions")
	}
	img := kv.Image()
	kv2, seq2, err := open(img)
	if err != nil {
		out.fail = &world.Fail{Clause: "durability", Msg: "restart failed: " + err.Error()}
		return
	}
	kv.Gate = nil
	live, liveOps := drainOps(seq)
	twin, _ := drainOps(seq2)
	out.trace = describe(ops) + "| the running process hands out " + fmt.Sprint(live) + " | a restart at the same point hands out " + fmt.Sprint(twin)
	out.key = fmt.Sprintf("p%d b%d pre%d %s| live %v| restart %v", cfg.Prog, bound, cfg.Pre, short(ops), live, twin)
	if !porcupine.CheckOperations(m, append(append([]porcupine.Operation{}, ops...), liveOps...)) {
		clause := "linearizable-fifo"
		if len(live) > bound {
			clause = "bound"
		}
		out.fail = &world.Fail{Clause: clause, Msg: "the concurrent history followed by a drain of the running process is not linearizable with respect to a bounded FIFO with exactly-once delivery: " + out.trace}
		return
	}
	if clause := drainDiff(live, twin); clause != "" {
		out.tags = append(out.tags, "restart-at-quiescence")
		out.fail = &world.Fail{Clause: clause, Msg: "write-ahead log and in-memory queue disagree once all calls have returned: the running process and a sequencer restarted on the same datastore do not hand out the same batches in the same order: " + out.trace}
		return
	}
	if again := reloadDrain(open, kv, drainOps); len(again) > 0 {
		out.fail = &world.Fail{Clause: "exactly-once", Msg: fmt.Sprintf("after everything was handed out (%v), a restart hands out %v again: %s", live, again, out.trace)}
		return
	}
	if again := reloadDrain(open, kv2, drainOps); len(again) > 0 {
		out.fail = &world.Fail{Clause: "exactly-once", Msg: fmt.Sprintf("after the restarted sequencer handed out everything (%v), a further restart hands out %v again: %s", twin, again, out.trace)}
	}
	return
}

func reloadDrain(open func(map[string][]byte) (*world.KV, *single.Sequencer, error), kv *world.KV, drain func(*single.Sequencer) ([]string, []porcupine.Operation)) []string {
	_, seq, err := open(kv.Image())
	if err != nil {
		return []string{"restart failed: " + err.Error()}
	}
	ids, _ := drain(seq)
	return ids
}

func countStr(xs []string) map[string]int {
	m := map[string]int{}
	for _, x := range xs {
		m[x]++
	}
	return m
}

// drainDiff names the clause violated when the restarted instance hands out `twin` where the running one hands out
// `live` ("" = they agree).
func drainDiff(live, twin []string) string {
	lc, tc := countStr(live), countStr(twin)
	for id, n := range tc {
		if n > lc[id] {
			return "exactly-once" // the restart hands out something that is not (or no longer) queued
		}
	}
	for id, n := range lc {
		if n > tc[id] {
			return "durability" // accepted and undelivered, gone after the restart
		}
	}
	for i := range live {
		if live[i] != twin[i] {
			return "fifo-order"
		}
	}
	return ""
}

// crashClause names the clause for a failed crash cut.
func crashClause(ops, wild []porcupine.Operation, got []string, bound int) string {
	ack, maybe, out := map[string]int{}, map[string]int{}, countStr(got)
	wildNext := 0
	for _, op := range ops {
		in, o := op.Input.(qIn), op.Output.(qOut)
		if in.submit && o.ok {
			ack[in.id]++
		}
		if !in.submit && o.id != "" {
			out[o.id]++
		}
	}
	for _, op := range wild {
		if in := op.Input.(qIn); in.submit {
			maybe[in.id]++
		} else {
			wildNext++
		}
	}
	for id, n := range out {
		if n > ack[id]+maybe[id] {
			return "exactly-once"
		}
	}
	if len(got) > bound {
		return "bound"
	}
	missing := 0
	for id, n := range ack {
		if n > out[id] {
			missing += n - out[id]
		}
	}
	if missing > wildNext {
		return "durability"
	}
	return "fifo-order"
}

// scheduleFeatures computes two history features from the grant trace ("thread:gate" in grant order) and the
// operations: overlap = two submissions overlapped in time; preLock = some thread had been granted everything up to a
// Lock() entry (it has evaluated whatever the operation evaluates before asking for the lock), and before it was
// granted the Lock() entry itself another thread ran at least one whole operation (from its first to its last gate).
func scheduleFeatures(trace []string, ops []porcupine.Operation) (overlap, preLock bool) {
	for i, a := range ops {
		for _, b := range ops[i+1:] {
			ia, ib := a.Input.(qIn), b.Input.(qIn)
			if ia.submit && ib.submit && a.ClientId != b.ClientId && a.Call < b.Return && b.Call < a.Return {
				overlap = true
			}
		}
	}
	type seg struct{ first, last int }
	segs := map[string][]seg{} // per thread: the grant index range of each operation
	prev := map[string]int{}   // per thread: index of its previous grant
	type wait struct {
		thr      string
		from, to int
	}
	var waits []wait
	for i, e := range trace {
		k := strings.IndexByte(e, ':')
		if k < 0 {
			continue
		}
		thr, gate := e[:k], e[k+1:]
		if gate == "start" || gate == "op" {
			segs[thr] = append(segs[thr], seg{i, i})
		} else if n := len(segs[thr]); n > 0 {
			segs[thr][n-1].last = i
		}
		if strings.HasPrefix(gate, "prelock:") {
			if j, ok := prev[thr]; ok {
				waits = append(waits, wait{thr, j, i})
			}
		}
		prev[thr] = i
	}
	for _, w := range waits {
		for thr, ss := range segs {
			if thr == w.thr {
				continue
			}
			for _, s := range ss {
				if s.first > w.from && s.last < w.to {
					preLock = true
				}
			}
		}
	}
	return
}

// ---------------------------------------------------------------------------------------------------------------

// concResult is what one process contributes (and what the parent merges).
type concResult struct {
	Viol       []vf.Violation
	Outcomes   map[string]int
	PerProg    map[string]map[string]int64
	Samples    []any
	Executions int64
	Points     int64
	Caps       []string
	Engine     []string
	Shards     int
}

func concBoundsText(thorough bool) []map[string]any {
	tier := 0
	if thorough {
		tier = 1
	}
	var out []map[string]any
	for _, prog := range concProgs {
		if prog.tier > tier {
			continue
		}
		var d any = prog.delay[tier]
		if prog.delay[tier] < 0 {
			d = "none (every interleaving)"
		}
		out = append(out, map[string]any{"threads": prog.name, "delay_bound": d, "crash_cuts": prog.crash[tier]})
	}
	return out
}

// runConc explores every configuration of the concurrent part in this process. With VERIF_SHARD=i/n in the
// environment the engine keeps only every n-th subtree below each root execution; the root execution itself is run by
// every shard and counted by shard 0 only.
func runConc(t *testing.T, thorough bool) concResult {
	tier := 0
	if thorough {
		tier = 1
	}
	shardI, shardN := 0, 1
	if sp := os.Getenv("VERIF_SHARD"); sp != "" {
		fmt.Sscanf(sp, "%d/%d", &shardI, &shardN)
	}
	res := concResult{Outcomes: map[string]int{}, PerProg: map[string]map[string]int64{}, Shards: 1}
	var mu sync.Mutex
	deadline := 45 * time.Second
	if thorough {
		deadline = 15 * time.Minute
	}
	start := time.Now()
	for pi, prog := range concProgs {
		if prog.tier > tier {
			continue
		}
		budgets := map[string]int{}
		if prog.delay[tier] >= 0 {
			budgets["sched"] = prog.delay[tier]
		}
		for _, bound := range []int{1, 2, 3} {
			for pre := 0; pre <= 1; pre++ {
				cfg := concCfg{Prog: pi, Bound: bound, Pre: pre, Crash: prog.crash[tier]}
				left := deadline - time.Since(start)
				if left < time.Second {
					left = time.Second
				}
				st := explore.Explore(explore.Config{Budgets: budgets, Deadline: left}, func(c *explore.Ctx) {
					o := concBody(t, c, cfg)
					root := true
					for _, p := range c.Choices() {
						if p.Choice != 0 {
							root = false
						}
					}
					mu.Lock()
					defer mu.Unlock()
					if o.fail != nil {
						if o.fail.Clause == "engine" {
							res.Engine = append(res.Engine, o.fail.Msg)
							return
						}
						res.Viol = append(res.Viol, vf.Violation{Clause: o.fail.Clause, Tags: o.tags, Msg: fmt.Sprintf("threads %s, queue size %d, %d batch(es) P carried over a restart before the threads start: %s", prog.name, bound, pre, o.fail.Msg), Cost: c.Cost(), History: replay{Bound: bound, Conc: c.Choices(), CC: &cfg}})
						return
					}
					if root && shardI != 0 {
						return // counted by shard 0
					}
					res.Executions++
					res.Points += int64(len(c.Choices()))
					p := res.PerProg[prog.name]
					if p == nil {
						p = map[string]int64{}
						res.PerProg[prog.name] = p
					}
					o.count(p)
					res.Outcomes["conc:"+o.key]++
					if h := histHash([]int{len(o.key), c.Cost(), bound, pre}); h%97 == 0 && (o.preLock || o.crashed) && len(res.Samples) < 3 {
						res.Samples = append(res.Samples, map[string]any{"threads": prog.name, "queue_size": bound, "preloaded": pre, "history": o.trace})
					}
				})
				for _, m := range st.Nondet {
					res.Engine = append(res.Engine, "nondeterminism: "+m)
				}
				if st.Capped != "" {
					res.Caps = append(res.Caps, fmt.Sprintf("concurrent part, threads %s, queue size %d, preloaded %d: %s", prog.name, bound, pre, st.Capped))
				}
			}
		}
	}
	return res
}

// concShardMain is the body of a child process.
func concShardMain(t *testing.T) {
	world.EnablePreLockGates()
	res := runConc(t, os.Getenv("VERIF_TIER") == "thorough")
	bz, err := json.Marshal(res)
	if err == nil {
		err = os.WriteFile(os.Getenv("C10_CONC_OUT"), bz, 0o644)
	}
	if err != nil {
		fmt.Println("ENGINE-ERROR: shard cannot write its result:", err)
		os.Exit(2)
	}
}

// runConcSharded runs the concurrent part in n child processes (GOMAXPROCS=1 each) and merges their results.
func runConcSharded(t *testing.T, thorough bool, n int) concResult {
	if os.Getenv("VERIF_NOSHARD") != "" || n <= 1 {
		return runConc(t, thorough)
	}
	merged := concResult{Outcomes: map[string]int{}, PerProg: map[string]map[string]int64{}, Shards: n}
	dir, err := os.MkdirTemp("", "c10-conc")
	if err != nil {
		merged.Engine = append(merged.Engine, err.Error())
		return merged
	}
	defer os.RemoveAll(dir)
	type job struct {
		cmd *exec.Cmd
		out string
		buf *bytes.Buffer
	}
	var jobs []job
	for i := 0; i < n; i++ {
		out := filepath.Join(dir, fmt.Sprintf("shard-%d.json", i))
		cmd := exec.Command(os.Args[0], "-test.run", "^TestCheck$", "-test.timeout", "0")
		cmd.Env = append(os.Environ(), fmt.Sprintf("VERIF_SHARD=%d/%d", i, n), "C10_CONC_OUT="+out, "GOMAXPROCS=1", "VERIF_WORKERS=1")
		buf := &bytes.Buffer{}
		cmd.Stdout, cmd.Stderr = buf, buf
		if err := cmd.Start(); err != nil {
			merged.Engine = append(merged.Engine, "cannot start shard: "+err.Error())
			continue
		}
		jobs = append(jobs, job{cmd, out, buf})
	}
	for i, j := range jobs {
		err := j.cmd.Wait()
		bz, rerr := os.ReadFile(j.out)
		if err != nil || rerr != nil {
			tail := j.buf.String()
			if len(tail) > 1500 {
				tail = tail[len(tail)-1500:]
			}
			merged.Engine = append(merged.Engine, fmt.Sprintf("shard %d failed (%v, %v): %s", i, err, rerr, tail))
			continue
		}
		var res concResult
		if err := json.Unmarshal(bz, &res); err != nil {
			merged.Engine = append(merged.Engine, fmt.Sprintf("shard %d result does not parse: %v", i, err))
			continue
		}
		merged.Viol = append(merged.Viol, res.Viol...)
		for k, v := range res.Outcomes {
			merged.Outcomes[k] += v
		}
		for prog, m := range res.PerProg {
			p := merged.PerProg[prog]
			if p == nil {
				p = map[string]int64{}
				merged.PerProg[prog] = p
			}
			for k, v := range m {
				if strings.HasPrefix(k, "max_") {
					if v > p[k] {
						p[k] = v
					}
				} else {
					p[k] += v
				}
			}
		}
		if len(merged.Samples) < 6 {
			merged.Samples = append(merged.Samples, res.Samples...)
		}
		merged.Executions += res.Executions
		merged.Points += res.Points
		for _, c := range res.Caps {
			merged.Caps = append(merged.Caps, fmt.Sprintf("process %d: %s", i, c))
		}
		for _, e := range res.Engine {
			merged.Engine = append(merged.Engine, fmt.Sprintf("process %d: %s", i, e))
		}
	}
	// cheapest example of each class first (the reporting layer keeps the first of a class)
	sort.SliceStable(merged.Viol, func(i, j int) bool {
		a, b := merged.Viol[i], merged.Viol[j]
		if a.Cost != b.Cost {
			return a.Cost < b.Cost
		}
		return len(a.Msg) < len(b.Msg)
	})
	return merged
}

// count adds this execution to the per-thread-program counters.
func (o concOutcome) count(p map[string]int64) {
	p["executions"]++
	if o.crashed {
		p["crash_cuts"]++
		if o.inflight > 0 {
			p["crash_cuts_with_operations_in_flight"]++
		}
	} else {
		p["ran_to_quiescence_fork_live_vs_restart"]++
		if o.overlap {
			p["quiescent_with_overlapping_submissions"]++
		}
		if o.preLock {
			p["quiescent_with_whole_operation_between_pre_lock_evaluation_and_lock"]++
		}
	}
	if int64(o.steps) > p["max_scheduling_steps"] {
		p["max_scheduling_steps"] = int64(o.steps)
	}
}

func sortedKeys(m map[string]map[string]int64) []string {
	var ks []string
	for k := range m {
		ks = append(ks, k)
	}
	sort.Strings(ks)
	return ks
}
