package c10

import (
	"context"
	"fmt"
	"strings"
	"sync/atomic"
	"testing"
	"testing/synctest"

	"github.com/anishathalye/porcupine"

	coreseq "github.com/evstack/ev-node/core/sequencer"
	"github.com/evstack/ev-node/sequencers/single"

	"verif/harness/explore"
	"verif/harness/world"
)

// Concurrent part of C10: two submitters and one consumer call the REAL single.Sequencer concurrently. The queue's
// mutex (overlay copy of sequencers/single with the lock shim) and every datastore operation are gates of the
// cooperative scheduler, so the explorer enumerates the interleavings (delay-bounded); the recorded call/return
// history of every interleaving is checked for linearizability against a bounded FIFO with porcupine, followed by a
// sequential drain and a reload.

type qIn struct {
	submit bool
	id     string
}
type qOut struct {
	ok bool   // submit accepted
	id string // next: batch id or "" for empty
}

func fifoModel(bound int) porcupine.Model {
	return porcupine.Model{
		Init: func() interface{} { return "" }, // queue as "A,B"
		Step: func(state, input, output interface{}) (bool, interface{}) {
			q := []string{}
			if s := state.(string); s != "" {
				q = strings.Split(s, ",")
			}
			in, out := input.(qIn), output.(qOut)
			if in.submit {
				if len(q) >= bound {
					return !out.ok, state
				}
				if !out.ok {
					return false, state
				}
				return true, strings.Join(append(append([]string{}, q...), in.id), ",")
			}
			if len(q) == 0 {
				return out.id == "", state
			}
			if out.id != q[0] {
				return false, state
			}
			return true, strings.Join(q[1:], ",")
		},
		Equal: func(a, b interface{}) bool { return a.(string) == b.(string) },
		DescribeOperation: func(input, output interface{}) string {
			in, out := input.(qIn), output.(qOut)
			if in.submit {
				return fmt.Sprintf("submit(%s)->%v", in.id, out.ok)
			}
			return fmt.Sprintf("next()->%q", out.id)
		},
	}
}

type concOutcome struct {
	fail  *world.Fail
	trace string
}

func concBody(t *testing.T, c *explore.Ctx, bound int) (out concOutcome) {
	synctest.Test(t, func(t *testing.T) { out = concBubble(c, bound) })
	return
}

func concBubble(c *explore.Ctx, bound int) (out concOutcome) {
	sched := world.NewSched(func(n int, names []string) int { return c.Choose("sched", n) })
	defer sched.Off()
	kv := world.NewKV(nil)
	kv.Gate = sched.Gate
	ctx := context.Background()
	seq, err := single.NewSequencerWithQueueSize(ctx, world.Logger, kv, nil, []byte(chainID), 0, nil, true, bound)
	if err != nil {
		out.fail = &world.Fail{Clause: "engine", Msg: err.Error()}
		return
	}
	var clock atomic.Int64
	var ops []porcupine.Operation
	opCh := make(chan porcupine.Operation, 16)
	submit := func(client int, id string) {
		call := clock.Add(1)
		_, err := seq.SubmitBatchTxs(ctx, coreseq.SubmitBatchTxsRequest{Id: []byte(chainID), Batch: &coreseq.Batch{Transactions: [][]byte{[]byte(id)}}})
		opCh <- porcupine.Operation{ClientId: client, Input: qIn{true, id}, Call: call, Output: qOut{ok: err == nil}, Return: clock.Add(1)}
	}
	next := func(client int) {
		call := clock.Add(1)
		resp, err := seq.GetNextBatch(ctx, coreseq.GetNextBatchRequest{Id: []byte(chainID)})
		id := ""
		if err == nil && resp != nil && resp.Batch != nil && len(resp.Batch.Transactions) > 0 {
			id = string(resp.Batch.Transactions[0])
		}
		opCh <- porcupine.Operation{ClientId: client, Input: qIn{false, ""}, Call: call, Output: qOut{id: id}, Return: clock.Add(1)}
	}
	sched.Go("submitter-1", func() { submit(0, "A"); submit(0, "B") })
	sched.Go("submitter-2", func() { submit(1, "C") })
	sched.Go("consumer", func() { next(2); next(2) })
	sched.Drain()
	if alive := sched.Alive(); len(alive) > 0 {
		out.fail = &world.Fail{Clause: "deadlock", Msg: fmt.Sprintf("threads never finished: %v (blocked: %v)", alive, sched.Blocked())}
		return
	}
	close(opCh)
	for op := range opCh {
		ops = append(ops, op)
	}
	// sequential epilogue: reload on the image, then drain; these are ordinary operations of the same history
	seq2, err := single.NewSequencerWithQueueSize(ctx, world.Logger, world.NewKV(kv.Image()), nil, []byte(chainID), 0, nil, true, bound)
	if err != nil {
		out.fail = &world.Fail{Clause: "durability", Msg: "reload failed: " + err.Error()}
		return
	}
	seq = seq2
	for i := 0; i < 4; i++ {
		call := clock.Add(1)
		resp, err := seq.GetNextBatch(ctx, coreseq.GetNextBatchRequest{Id: []byte(chainID)})
		id := ""
		if err == nil && resp != nil && resp.Batch != nil && len(resp.Batch.Transactions) > 0 {
			id = string(resp.Batch.Transactions[0])
		}
		ops = append(ops, porcupine.Operation{ClientId: 3, Input: qIn{false, ""}, Call: call, Output: qOut{id: id}, Return: clock.Add(1)})
	}
	var sb strings.Builder
	m := fifoModel(bound)
	for _, op := range ops {
		fmt.Fprintf(&sb, "[%d..%d c%d %s] ", op.Call, op.Return, op.ClientId, m.DescribeOperation(op.Input, op.Output))
	}
	out.trace = sb.String()
	if !porcupine.CheckOperations(m, ops) {
		out.fail = &world.Fail{Clause: "linearizable-fifo", Msg: "the concurrent history (followed by reload and drain) is not linearizable with respect to a bounded FIFO with exactly-once delivery: " + out.trace}
	}
	return
}
