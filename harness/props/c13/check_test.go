package c13

import (
	"os"
	"regexp"
	"strconv"
	"bytes"
	"context"
	"fmt"
	"strings"
	"testing"
	"testing/synctest"
	"time"

	"github.com/evstack/ev-node/block"
	coreseq "github.com/evstack/ev-node/core/sequencer"
	"github.com/evstack/ev-node/types"

	"verif/harness/explore"
	"verif/harness/vf"
	"verif/harness/world"
)

// C13 — concurrent background loops keep the invariants and stop promptly.
// A sequencer node (AggregationLoop, Reaper, HeaderSubmissionLoop, DataSubmissionLoop, DAIncluderLoop) and a full node
// (RetrieveLoop, HeaderStoreRetrieveLoop, DataStoreRetrieveLoop, SyncLoop, DAIncluderLoop) — all ten REAL loops,
// unmodified, with their own tickers — share a DA double and P2P store doubles inside one synctest bubble and run as
// threads of a cooperative scheduler (one thread runs between two environment calls; the explorer picks who continues,
// delay-bounded). A stop is one more explored decision at every 100 ms boundary. Oracles: the C01/C02/C06/C07
// invariants on every execution, and after a stop every loop returns within one block interval of virtual time.

const blockTime = time.Second

type outcome struct {
	fail   *world.Fail
	tags   []string
	events []string
	sig    string
}

type worldT struct {
	sched        *world.Sched
	agg, full    *world.Node
	envA, envF   *world.Env
	cancel       context.CancelFunc
	errCh        chan error
	initial      uint64
	futureStart  bool
	stopped      bool
	midstop      bool // the stop request arrived in the middle of an activity (at a scheduling point)
	transient    *world.Fail // a cheap invariant failed between two steps
	queues       *world.EventQueues
	ioerr        string // non-empty: a datastore write was made to fail (transient I/O error)
}

// joinShape is read from node/full.go of the tree under test: FullNode.Run creates `errCh := make(chan error, N)`, hands it
// to the loops, reads it exactly once in the select that also waits for the parent context, cancels, and then waits for
// all workers without reading it again. The harness models exactly that join (it cannot run Run itself: libp2p does not run
// in a bubble), with N taken from the source; any other shape is a machinery error (the model must be revisited).
func joinShape() (capacity int, err error) {
	dir := os.Getenv("VERIF_REPO_DIR")
	if dir == "" {
		dir = "/repo"
	}
	src, e := os.ReadFile(dir + "/node/full.go")
	if e != nil {
		return 0, e
	}
	m := regexp.MustCompile(`errCh := make\(chan error, (\d+)\)`).FindSubmatch(src)
	if m == nil {
		return 0, fmt.Errorf("node/full.go: `errCh := make(chan error, N)` not found")
	}
	capacity, _ = strconv.Atoi(string(m[1]))
	if n := len(regexp.MustCompile(`<-\s*errCh`).FindAll(src, -1)); n != 1 {
		return 0, fmt.Errorf("node/full.go: errCh is read %d times, the modelled join reads it once", n)
	}
	if !regexp.MustCompile(`(?s)case err := <-errCh:.*?cancelNode\(\).*?case <-parentCtx.Done\(\):.*?cancelNode\(\).*?wg.Wait\(\)`).Match(src) {
		return 0, fmt.Errorf("node/full.go: the select{errCh, parentCtx.Done} -> cancelNode -> wg.Wait join is not recognised")
	}
	return capacity, nil
}

var errChCap = -1

func startWorld(c *explore.Ctx, futureGenesis bool, daBlock time.Duration, honourCancel bool) (*worldT, *world.Fail) {
	w := &worldT{initial: 1, futureStart: futureGenesis, errCh: make(chan error, errChCap)}
	c.Aux = w
	w.sched = world.NewSched(func(n int, names []string) int {
		if w.stopped {
			return 0
		}
		return c.Choose("sched", n)
	})
	t0 := time.Now()
	gen := t0.Add(-time.Hour)
	if futureGenesis {
		gen = t0.Add(10 * blockTime)
	}
	p := world.Params{InitialHeight: 1, BlockTime: blockTime, DABlockTime: daBlock, MempoolTTL: 2, GenesisTime: gen, DAStartHeight: 1}
	w.envA = world.NewEnv()
	w.envF = &world.Env{DA: w.envA.DA, Exec: world.NewExec(), Seq: &world.Seq{}}
	w.envA.Exec.HonourCancel, w.envF.Exec.HonourCancel = honourCancel, honourCancel
	if honourCancel {
		// ... and, from the stop request on, does not answer calls whose context is still live (a hung remote engine):
		// a loop that calls it with a context detached from the stop request never returns
		hang := func() bool { return w.stopped }
		w.envA.Exec.Hang, w.envF.Exec.Hang = hang, hang
	}
	hs := &world.P2PStore[*types.SignedHeader]{Gate: w.sched.Gate}
	ds := &world.P2PStore[*types.Data]{Gate: w.sched.Gate}
	// sequencing layer double: hands out what the reaper submitted, else an empty batch
	taken := 0
	w.envA.Seq.Next = func(req coreseq.GetNextBatchRequest) world.SeqAnswer {
		if taken < len(w.envA.Seq.Submitted) {
			txs := w.envA.Seq.Submitted[taken]
			taken++
			return world.SeqAnswer{Kind: "batch", Txs: txs, Time: time.Now()}
		}
		return world.SeqAnswer{Kind: "batch", Time: time.Now()}
	}
	w.envA.Exec.Inject([]byte("tx-1"))
	w.envA.Exec.Inject([]byte("tx-2"))
	var err error
	w.agg, err = world.StartNode(p, w.envA, nil, world.NodeOpts{Aggregator: true, Gate: w.sched.Gate})
	if err != nil {
		return nil, &world.Fail{Clause: "startup", Msg: "sequencer node: " + err.Error()}
	}
	w.agg.HB.OnSend = func(h *types.SignedHeader) { hs.Append1(h) }
	w.agg.DB.OnSend = func(d *types.Data) { ds.Append1(d) }
	w.full, err = world.StartNode(p, w.envF, nil, world.NodeOpts{Gate: w.sched.Gate, HStore: hs, DStore: ds})
	if err != nil {
		return nil, &world.Fail{Clause: "startup", Msg: "full node: " + err.Error()}
	}
	w.queues = world.InstallDivert(w.sched, w.full, "sync")
	// one DA submission may fail (the retry then waits for a back-off during which a stop must still be honoured)
	daFault := false
	w.envA.DA.SubmitPolicy = func(blobs [][]byte) world.SubmitAnswer {
		if w.stopped || daFault {
			return world.SubmitAcceptAll
		}
		switch c.Choose("da", 3) {
		case 1:
			daFault = true
			return world.SubmitTimedOut
		case 2:
			daFault = true
			return world.SubmitGenericError
		}
		return world.SubmitAcceptAll
	}
	// one transient datastore write error anywhere (both nodes)
	for _, n := range []*world.Node{w.agg, w.full} {
		who := map[bool]string{true: "sequencer-node", false: "full-node"}[n.Agg]
		n.KV.FailWrite = func(idx int, wr world.Write) bool {
			if w.stopped || w.ioerr != "" {
				return false
			}
			if c.Choose("ioerr", 2) == 1 {
				w.ioerr = who + ":" + wr.String()
				return true
			}
			return false
		}
	}
	var ctx context.Context
	ctx, w.cancel = context.WithCancel(context.Background())
	a, f := w.agg.M, w.full.M
	reaper := block.NewReaper(ctx, &world.ExecClient{Exec: w.envA.Exec, Fate: w.agg.Fate, Gate: w.sched.Gate}, &world.SeqClient{Seq: w.envA.Seq, Fate: w.agg.Fate, Gate: w.sched.Gate}, p.ChainID, blockTime, world.Logger, w.agg.KV)
	reaper.SetManager(a)
	w.sched.Go("agg:produce", func() { a.AggregationLoop(ctx, w.errCh) })
	w.sched.Go("agg:reaper", func() { reaper.Start(ctx) })
	w.sched.Go("agg:hdr-submit", func() { a.HeaderSubmissionLoop(ctx) })
	w.sched.Go("agg:data-submit", func() { a.DataSubmissionLoop(ctx) })
	w.sched.Go("agg:includer", func() { a.DAIncluderLoop(ctx, w.errCh) })
	w.sched.Go("full:retrieve", func() { f.RetrieveLoop(ctx) })
	w.sched.Go("full:p2p-headers", func() { f.HeaderStoreRetrieveLoop(ctx) })
	w.sched.Go("full:p2p-data", func() { f.DataStoreRetrieveLoop(ctx) })
	w.sched.Go("sync", func() { f.SyncLoop(ctx, w.errCh) })
	w.sched.Go("full:includer", func() { f.DAIncluderLoop(ctx, w.errCh) })
	// a stop request may also arrive at any scheduling point (while activities are in the middle of an environment
	// call sequence); explored on otherwise default executions only (no second deviation)
	w.sched.Interrupt = func() bool {
		if w.stopped {
			return false
		}
		for _, p := range c.Choices() {
			if p.Class != "config" && p.Choice != 0 {
				return false
			}
		}
		if c.Choose("midstop", 2) == 1 {
			w.stopped, w.midstop = true, true
			return true
		}
		return false
	}
	// cheap state invariants between ANY two steps of the loops (the full oracles run at the 500 ms marks)
	w.sched.OnStep = func() {
		if w.transient != nil || w.stopped || w.ioerr != "" || w.agg.Fate.Crashed() || w.full.Fate.Crashed() {
			return
		}
		hA, hF := w.agg.Height(), w.full.Height()
		if hF > hA {
			w.transient = &world.Fail{Clause: "C02:follows-producer", Msg: fmt.Sprintf("between two steps (scheduler step %d, last: %s): full node is at height %d, the sequencer node at %d", w.sched.Steps, w.sched.Last(), hF, hA)}
		}
		if inc := w.agg.M.GetDAIncludedHeight(); inc > hA {
			w.transient = &world.Fail{Clause: "C07:not-above-chain-height", Msg: fmt.Sprintf("between two steps (scheduler step %d, last: %s): sequencer node reports DA-included height %d, its chain height is %d", w.sched.Steps, w.sched.Last(), inc, hA)}
		}
		if inc := w.full.M.GetDAIncludedHeight(); inc > hF {
			w.transient = &world.Fail{Clause: "C07:not-above-chain-height", Msg: fmt.Sprintf("between two steps (scheduler step %d, last: %s): full node reports DA-included height %d, its chain height is %d", w.sched.Steps, w.sched.Last(), inc, hF)}
		}
	}
	w.sched.Drain()
	return w, nil
}

// invariants checks C01/C02/C06/C07 on the current state of both nodes.
func (w *worldT) invariants() *world.Fail {
	if w.transient != nil && w.ioerr == "" {
		return w.transient
	}
	if w.ioerr != "" {
		return nil // after an injected I/O error a loop may legitimately report a fatal error; only stopping is checked
	}
	if !w.stopped { // FullNode.Run reads the error channel only until it cancels; errors reported during the shutdown are nobody's
		select {
		case err := <-w.errCh:
			return &world.Fail{Clause: "loop-fatal-error", Msg: "a loop reported a fatal error: " + err.Error()}
		default:
		}
	}
	var batches [][][]byte
	for _, a := range w.envA.Seq.HandedOut {
		if len(a.Txs) > 0 {
			batches = append(batches, a.Txs)
		}
	}
	hA, blocksA, f := world.CheckChain(w.agg.OracleStore(), world.ChainSpec{ChainID: w.agg.P.ChainID, Initial: 1, Proposer: w.agg.Signer, Batches: batches, CheckBatches: true})
	if f != nil {
		f.Clause = "C01:" + f.Clause
		return f
	}
	// the full node follows the producer
	hF, blocksF, f := world.ReadChain(w.full.OracleStore(), 1)
	if f != nil {
		f.Clause = "C02:" + f.Clause
		return f
	}
	if hF > hA {
		return &world.Fail{Clause: "C02:follows-producer", Msg: fmt.Sprintf("full node is at height %d, the sequencer node at %d", hF, hA)}
	}
	for i, b := range blocksF {
		if !bytes.Equal(b.H.Hash(), blocksA[i].H.Hash()) {
			return &world.Fail{Clause: "C02:follows-producer", Msg: fmt.Sprintf("full node block %d differs from the sequencer node's", i+1)}
		}
	}
	if f := world.CheckDAContents(w.agg, 1); f != nil {
		f.Clause = "C06:" + f.Clause
		return f
	}
	for _, n := range []*world.Node{w.agg, w.full} {
		who := map[bool]string{true: "sequencer node", false: "full node"}[n.Agg]
		rep := n.M.GetDAIncludedHeight()
		if f := world.CheckDAIncluded(n, 1, rep); f != nil {
			f.Clause, f.Msg = "C07:"+f.Clause, who+": "+f.Msg
			return f
		}
		if f := world.CheckFinalizeLog(n.Env.Exec, 1, rep); f != nil {
			f.Clause, f.Msg = "C07:"+f.Clause, who+": "+f.Msg
			return f
		}
	}
	return nil
}

// stop cancels both nodes and checks that every loop returns within one block interval of virtual time.
func (w *worldT) stop() *world.Fail {
	w.stopped = true
	w.sched.Interrupted = false
	w.cancel()
	w.sched.Drain()
	for i := 0; i < 10 && len(w.sched.Alive()) > 0; i++ {
		time.Sleep(blockTime / 10)
		synctest.Wait()
		w.sched.Drain()
	}
	alive := w.sched.Alive()
	if len(alive) > 0 {
		msg := fmt.Sprintf("one block interval after the stop request these activities have not returned: %v", alive)
		if b := w.sched.Blocked(); len(b) > 0 {
			msg += fmt.Sprintf("; blocked for ever on a lock (deadlock): %v", b)
		}
		if len(w.errCh) == cap(w.errCh) {
			var held []string
			for len(w.errCh) > 0 {
				held = append(held, (<-w.errCh).Error())
			}
			msg += fmt.Sprintf("; the error channel of FullNode.Run (capacity %d, read once before the cancel, never after it) is full, it holds %q — a further loop reporting an error blocks in its send for ever and wg.Wait() never returns", cap(w.errCh), held)
			time.Sleep(blockTime / 10)
			synctest.Wait()
			w.sched.Drain()
			for len(w.errCh) > 0 {
				msg += fmt.Sprintf("; then unblocked: %q", (<-w.errCh).Error())
			}
		}
		return &world.Fail{Clause: "stops-promptly", Msg: msg}
	}
	return nil
}

// teardown frees whatever is still blocked so that the bubble can end.
func (w *worldT) teardown() {
	w.stopped = true
	w.cancel()
	w.agg.Fate.Kill()
	w.full.Fate.Kill()
	w.sched.Off()
	for i := 0; i < 200 && len(w.sched.Alive()) > 0; i++ {
		// unblock senders into a full event channel
		for {
			select {
			case <-w.full.M.VerifHeaderInCh():
				continue
			case <-w.full.M.VerifDataInCh():
				continue
			case <-w.errCh: // a loop blocked for ever in its error report
				continue
			default:
			}
			break
		}
		time.Sleep(blockTime)
		synctest.Wait()
	}
	w.full.M.VerifClearDivert()
}

func body(t *testing.T, c *explore.Ctx, horizonSteps int) (out outcome) {
	synctest.Test(t, func(t *testing.T) { out = bubble(c, horizonSteps) })
	return
}

func bubble(c *explore.Ctx, horizonSteps int) (out outcome) {
	future := c.Choose("config", 2) == 1
	daBlock := []time.Duration{blockTime, 3 * blockTime}[c.Choose("config", 2)]
	honour := c.Choose("config", 2) == 1
	w, f := startWorld(c, future, daBlock, honour)
	if f != nil {
		out.fail = f
		return
	}
	defer w.teardown()
	tags := []string{}
	if future {
		tags = append(tags, "genesis-in-the-future")
	}
	if honour {
		tags = append(tags, "executor-honours-cancellation")
	}
	stoppedAt := -1
	for step := 0; step <= horizonSteps; step++ {
		if w.midstop {
			stoppedAt = step
			break
		}
		if c.Choose("stop", 2) == 1 {
			stoppedAt = step
			break
		}
		time.Sleep(blockTime / 10)
		synctest.Wait()
		w.sched.Drain()
		if w.ioerr != "" {
			// what FullNode.Run does when a loop reports an unrecoverable error: stop everything
			select {
			case <-w.errCh:
				stoppedAt = step
			default:
			}
			if stoppedAt >= 0 {
				break
			}
		}
		if step%5 == 4 && !w.midstop {
			if f := w.invariants(); f != nil {
				out.fail, out.tags = f, tags
				return
			}
		}
	}
	if w.midstop {
		// the stop interrupted activities half-way: only the stop behaviour is judged
		tags = append(tags, "stop-mid-activity")
		out.events = append(out.events, fmt.Sprintf("stop request at scheduling step %d (last scheduled: %s)", w.sched.Steps, w.sched.Last()))
		if f := w.stop(); f != nil {
			out.fail, out.tags = f, tags
			return
		}
		out.sig = fmt.Sprintf("future=%v da=%s honour=%v midstop@%d", future, daBlock, honour, w.sched.Steps)
		return
	}
	if f := w.invariants(); f != nil {
		out.fail, out.tags = f, tags
		return
	}
	if w.ioerr != "" {
		tags = append(tags, "io-error")
		out.events = append(out.events, "write failed: "+w.ioerr)
	}
	if stoppedAt >= 0 {
		out.events = append(out.events, fmt.Sprintf("stop at %dms", stoppedAt*100))
	}
	if f := w.stop(); f != nil {
		out.fail, out.tags = f, tags
		return
	}
	if f := w.invariants(); f != nil {
		f.Msg = "after stop: " + f.Msg
		out.fail, out.tags = f, tags
		return
	}
	if w.full.Height() > 0 && w.queues.Diverted == 0 {
		out.fail = &world.Fail{Clause: "engine", Msg: "the full node applied blocks but no diverted event was observed: the overlay rewrite of the sends in block/retriever.go, block/store.go is not in effect for this tree"}
		return
	}
	out.sig = fmt.Sprintf("future=%v da=%s honour=%v stop=%d hA=%d hF=%d incA=%d incF=%d", future, daBlock, honour, stoppedAt, w.agg.Height(), w.full.Height(), w.agg.M.GetDAIncludedHeight(), w.full.M.GetDAIncludedHeight())
	return
}

// fullChannel: the sync loop's input channel is full and the sync loop is gone; a producing loop is mid-send when
// the node is asked to stop.
func fullChannel(t *testing.T, which string) (out outcome) {
	synctest.Test(t, func(t *testing.T) {
		pc, err := world.BuildChain("a", 1)
		if err != nil {
			out.fail = &world.Fail{Clause: "engine", Msg: err.Error()}
			return
		}
		env := world.NewEnv()
		hs := &world.P2PStore[*types.SignedHeader]{}
		ds := &world.P2PStore[*types.Data]{}
		p := world.Params{InitialHeight: 1, BlockTime: 1000 * time.Hour, DABlockTime: 1000 * time.Hour, DAStartHeight: 1}
		n, err := world.StartNode(p, env, nil, world.NodeOpts{HStore: hs, DStore: ds})
		if err != nil {
			out.fail = &world.Fail{Clause: "startup", Msg: err.Error()}
			return
		}
		m := n.M
		// fill both input channels to capacity (the sync loop is not running: it is gone / starved)
		for i := 0; i < cap(m.VerifHeaderInCh()); i++ {
			m.VerifHeaderInCh() <- block.NewHeaderEvent{Header: pc.Header(0), DAHeight: 1}
		}
		for i := 0; i < cap(m.VerifDataInCh()); i++ {
			m.VerifDataInCh() <- block.NewDataEvent{Data: pc.DataAt(1), DAHeight: 1}
		}
		ctx, cancel := context.WithCancel(context.Background())
		done := make(chan struct{})
		switch which {
		case "retrieve-header":
			env.DA.Place(1, pc.HdrBlobs[1])
			go func() { defer close(done); m.RetrieveLoop(ctx) }()
			m.VerifRetrieveCh() <- struct{}{}
		case "retrieve-data":
			env.DA.Place(1, pc.DatBlobs[1])
			go func() { defer close(done); m.RetrieveLoop(ctx) }()
			m.VerifRetrieveCh() <- struct{}{}
		case "p2p-header":
			hs.Append1(pc.Header(0))
			go func() { defer close(done); m.HeaderStoreRetrieveLoop(ctx) }()
			synctest.Wait()
			m.VerifHeaderStoreCh() <- struct{}{}
		case "p2p-data":
			ds.Append1(pc.DataAt(0))
			go func() { defer close(done); m.DataStoreRetrieveLoop(ctx) }()
			synctest.Wait()
			m.VerifDataStoreCh() <- struct{}{}
		}
		time.Sleep(100 * time.Millisecond)
		synctest.Wait()
		cancel()
		time.Sleep(blockTime)
		synctest.Wait()
		select {
		case <-done:
		default:
			out.fail = &world.Fail{Clause: "stops-promptly", Msg: fmt.Sprintf("with the sync loop's input channel full (%d events) and the sync loop gone, the %s loop is still blocked in its send one block interval after the stop request", cap(m.VerifHeaderInCh()), which)}
			out.tags = []string{"event-channel-full"}
			// free it so that the bubble can end
			for {
				select {
				case <-m.VerifHeaderInCh():
					continue
				case <-m.VerifDataInCh():
					continue
				case <-done:
					return
				default:
				}
				time.Sleep(time.Second)
				synctest.Wait()
			}
		}
	})
	return
}

func TestCheck(t *testing.T) {
	r := vf.Start("C13", "exploration")
	// supplement (sampling, decides nothing): free-running executions of the same loops under the Go race detector
	r.RacePass(vf.Pick(r, 3, 40), "github.com/evstack/ev-node/")
	if r.RunShards(16) { // bubble-heavy: one process per shard of the exploration
		return
	}
	if n, err := joinShape(); err != nil {
		r.EngineError(err.Error())
		r.Finish(vf.Coverage{})
		return
	} else {
		errChCap = n
	}
	horizon := vf.Pick(r, 25, 40) // 100 ms steps
	budgets := vf.Pick(r, map[string]int{"sched": 1, "stop": 1, "midstop": 1, "ioerr": 1, "da": 1}, map[string]int{"sched": 2, "stop": 1, "midstop": 1, "ioerr": 1, "da": 1})
	total := vf.Pick(r, 2, 2) // thorough: longer horizon and two scheduling deviations; three deviations (2.4 M+ executions in 25 min) never completed within the tier's time
	r.Assume = []string{
		"virtual time; scheduling granularity = environment calls (datastore, DA, executor, sequencer, P2P stores) plus gated sends into the sync loop's input channels; plain memory accesses between two gates are atomic, so DATA RACES ARE NOT DECIDED by this enumeration; as a supplement outside the enumeration the same ten loops (plus concurrent read accessors) run free (no scheduler, no lock shim) under the Go race detector for a grid of configurations x stop instants (coverage.race_supplement; sampling of interleavings) and every report that involves repository code is reported as clause data-race",
		"the worker fan-out/join of FullNode.Run (node/full.go) is not executed here (libp2p goroutines cannot run in a bubble); it is modelled: the ten loops are started as Run starts them, the error channel has the capacity read from node/full.go, it is read once (first fatal error => cancel) and never after the cancel, and the join is 'every loop has returned'; a source whose join has another shape is a machinery error",
		"executor doubles either ignore the context or (configuration) behave like a remote execution client: calls made with a cancelled context fail, and from the stop request on a call whose context is still live gets no answer until that context ends",
		"a stop is explored at every 100 ms boundary (combined with the other deviations) and, on otherwise default executions, at every scheduling point in the middle of the activities (then only the stop behaviour is judged); 'promptly' = within one block interval of virtual time",
		"locks of package block are visible to the scheduler (overlay copy with a lock shim): a thread waiting for a held lock is parked, a thread that can never get its lock is reported as a deadlock",
		"one DA submission may be answered 'timed out' or with a generic error (the retry back-off is then pending when a stop arrives)",
		"one transient datastore write error may be injected anywhere; afterwards only the stop behaviour is judged (a loop reporting a fatal error is then legitimate and triggers the stop, as FullNode.Run does)",
		"livelock: an execution that has not ended after 120 s of real time (executions take milliseconds) is examined: if the scheduler makes no more steps and one goroutine is running/runnable in the same function in 10 consecutive stack samples it is reported as a busy loop, otherwise as a machinery error",
		"after the stop request scheduling is canonical (Go's random choice between ctx.Done() and another ready case is not owned; both outcomes must satisfy the oracle)",
	}
	// livelock: an activity that runs for ever without reaching an environment call, a lock, a channel or a timer
	// never lets the bubble go quiescent. Executions take milliseconds; one that has not ended after stuckAfter of
	// real time while the process kept burning CPU is a busy loop (without CPU use it is a machinery problem).
	const stuckAfter = 120 * time.Second
	onStuck := func(c *explore.Ctx, waited, cpu time.Duration) {
		who, stopped := "?", false
		steps := func() int { return 0 }
		if w, ok := c.Aux.(*worldT); ok && w != nil {
			who, stopped = w.sched.Last(), w.stopped
			steps = func() int { return w.sched.StepCount() }
		}
		s0 := steps()
		busy, where := explore.BusyGoroutine(10, 500*time.Millisecond)
		if !busy || steps() != s0 {
			r.EngineError(fmt.Sprintf("an execution did not end within %s (CPU used %s) but no goroutine is spinning (busy=%v, scheduler steps %d -> %d): starved machine or harness deadlock (last scheduled: %s)\n choices: %s", waited.Round(time.Second), cpu.Round(time.Second), busy, s0, steps(), who, short(c.String())))
		} else {
			who += " [" + where + "]"
			clause, what := "busy-loop", "no stop was requested"
			if stopped {
				clause, what = "stops-promptly", "a stop had been requested"
			}
			r.Report(vf.Violation{Clause: clause, Tags: []string{"busy-loop"}, Msg: fmt.Sprintf("activity %q runs for ever without reaching an environment call, lock, channel operation or timer (%s): the execution did not end within %s of real time and burnt %s of CPU (executions normally take milliseconds)\n choices: %s", who, what, waited.Round(time.Second), cpu.Round(time.Second), short(c.String())), Cost: c.Cost(), History: map[string]any{"Choices": c.Choices()}})
		}
		r.Abort(vf.Coverage{Evaluations: 1, DistinctNontrivial: 1, Rule: "aborted: a stuck execution cannot be ended from inside the process", Caps: []string{"aborted after a stuck execution"}})
	}
	onStuckWhich := func(which string, waited, cpu time.Duration) {
		busy, where := explore.BusyGoroutine(10, 500*time.Millisecond)
		if !busy {
			r.EngineError(fmt.Sprintf("full-channel scenario %s did not end within %s (CPU used %s) but no goroutine is spinning", which, waited.Round(time.Second), cpu.Round(time.Second)))
		} else {
			which += " [" + where + "]"
			r.Report(vf.Violation{Clause: "stops-promptly", Tags: []string{"busy-loop", "event-channel-full"}, Msg: fmt.Sprintf("with the sync loop's input channel full and a stop requested, the %s loop runs for ever without blocking (busy loop): the scenario did not end within %s of real time and burnt %s of CPU", which, waited.Round(time.Second), cpu.Round(time.Second)), Cost: 1, History: map[string]any{"Which": which}})
		}
		r.Abort(vf.Coverage{Evaluations: 1, DistinctNontrivial: 1, Rule: "aborted: a stuck execution cannot be ended from inside the process", Caps: []string{"aborted after a stuck execution"}})
	}
	if r.ReplayPath() != "" {
		var h struct {
			Which      string
			RaceReport string
			Choices    []explore.Point
		}
		if _, err := r.LoadReplay(&h); err != nil {
			r.EngineError(err.Error())
		} else if h.RaceReport != "" {
			// a recorded race cannot be replayed deterministically: the sampling pass is run again (more rounds)
			r.RacePassAlways(40, "github.com/evstack/ev-node/")
		} else if h.Which != "" {
			if o := fullChannel(t, h.Which); o.fail != nil {
				r.Report(vf.Violation{Clause: o.fail.Clause, Tags: o.tags, Msg: o.fail.Msg, History: h})
			}
		} else {
			explore.ReplayOne(h.Choices, func(c *explore.Ctx) {
				defer close(explore.Watch(c, stuckAfter, onStuck))
				if o := body(t, c, horizon); o.fail != nil {
					fmt.Println(o.fail.Msg, o.events)
					r.Report(vf.Violation{Clause: o.fail.Clause, Tags: o.tags, Msg: o.fail.Msg, History: h})
				}
			})
		}
		r.Finish(vf.Coverage{Evaluations: 1, DistinctNontrivial: 1})
		return
	}
	st := explore.Explore(explore.Config{Budgets: budgets, Total: total, Free: []string{"config"}, ShardDepth: 1, Deadline: vf.Pick(r, 90*time.Second, 25*time.Minute), StuckAfter: stuckAfter, OnStuck: onStuck}, func(c *explore.Ctx) {
		o := body(t, c, horizon)
		if o.fail != nil && o.fail.Clause == "engine" {
			r.EngineError(o.fail.Msg)
			return
		}
		if o.fail != nil {
			r.Report(vf.Violation{Clause: o.fail.Clause, Tags: o.tags, Msg: fmt.Sprintf("%s\n events: %v\n choices: %s", o.fail.Msg, o.events, short(c.String())), Cost: c.Cost(), History: map[string]any{"Choices": c.Choices()}})
			r.Outcome("fail:" + o.fail.Clause)
			return
		}
		r.Outcome(o.sig)
		if c.Cost() >= 2 {
			r.Sample(o.sig)
		}
	})
	for _, m := range st.Nondet {
		r.EngineError("nondeterminism: " + m)
	}
	var extra int64
	if r.FirstShard() {
		for _, which := range []string{"retrieve-header", "retrieve-data", "p2p-header", "p2p-data"} {
			extra++
			wc := &explore.Ctx{}
			fin := explore.Watch(wc, stuckAfter, func(c *explore.Ctx, waited, cpu time.Duration) { onStuckWhich(which, waited, cpu) })
			o := fullChannel(t, which)
			close(fin)
			if o.fail != nil {
				r.Report(vf.Violation{Clause: o.fail.Clause, Tags: o.tags, Msg: o.fail.Msg, Cost: 1, History: map[string]any{"Which": which}})
			} else {
				r.Outcome("full-channel:" + which + ":returns")
			}
		}
	}
	var caps []string
	if st.Capped != "" {
		caps = append(caps, st.Capped)
	}
	r.Finish(vf.Coverage{
		Evaluations: st.Executions + extra, DistinctNontrivial: int64(r.DistinctOutcomes()), States: st.Executions, Transitions: st.Points,
		Rule:       "every interleaving of the ten real loops within the delay budget × genesis time {past, future} × DA block time {1, 3 block intervals} × a stop at every 100 ms boundary (or none), with the C01/C02/C06/C07 oracles and the prompt-stop oracle; plus four full-event-channel stop scenarios; distinct = distinct end-state signatures",
		Exhaustive: true, Caps: caps,
		Bounds:     map[string]any{"horizon_ms": horizon * 100, "budgets": budgets, "max_total_deviations": total, "max_decision_points": st.MaxDepth},
	})
}

func short(s string) string {
	s = strings.ReplaceAll(s, ". ", "")
	if len(s) > 300 {
		return s[:300]
	}
	return s
}
