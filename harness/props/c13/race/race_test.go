// Package race is the free-running supplement of C13: the same ten real loops over the same doubles, but without the
// cooperative scheduler (its hand-offs are happens-before edges that would blind the detector) and without the lock shim,
// built with -race. It SAMPLES interleavings (whatever the Go runtime produces on all cores), so it decides nothing; it
// exists because unsynchronised memory accesses are invisible to the enumeration under the cooperative scheduler.
// The parent check (props/c13) runs this binary, reads the race reports and turns every report that involves code of the
// repository into a violation of the clause "data-race".
package race

import (
	"context"
	"fmt"
	"os"
	"strconv"
	"sync"
	"testing"
	"testing/synctest"
	"time"

	"github.com/evstack/ev-node/block"
	coreseq "github.com/evstack/ev-node/core/sequencer"
	"github.com/evstack/ev-node/types"

	"verif/harness/world"
)

const blockTime = time.Second

func run(future bool, daBlock time.Duration, stopStep, horizon int, lazy bool) (notReturned int, hA, hF uint64) {
	t0 := time.Now()
	gen := t0.Add(-time.Hour)
	if future {
		gen = t0.Add(3 * blockTime)
	}
	p := world.Params{InitialHeight: 1, BlockTime: blockTime, DABlockTime: daBlock, MempoolTTL: 2, GenesisTime: gen, DAStartHeight: 1, Lazy: lazy}
	envA := world.NewEnv()
	envF := &world.Env{DA: envA.DA, Exec: world.NewExec(), Seq: &world.Seq{}}
	hs := &world.P2PStore[*types.SignedHeader]{}
	ds := &world.P2PStore[*types.Data]{}
	var mu sync.Mutex
	taken := 0
	envA.Seq.Next = func(req coreseq.GetNextBatchRequest) world.SeqAnswer {
		mu.Lock()
		defer mu.Unlock()
		sub := envA.Seq.SubmittedCopy()
		if taken < len(sub) {
			txs := sub[taken]
			taken++
			return world.SeqAnswer{Kind: "batch", Txs: txs, Time: time.Now()}
		}
		return world.SeqAnswer{Kind: "batch", Time: time.Now()}
	}
	for i := 0; i < 6; i++ {
		envA.Exec.Inject([]byte(fmt.Sprintf("tx-%d", i)))
	}
	agg, err := world.StartNode(p, envA, nil, world.NodeOpts{Aggregator: true})
	if err != nil {
		panic(err)
	}
	agg.HB.OnSend = func(h *types.SignedHeader) { hs.Append1(h) }
	agg.DB.OnSend = func(d *types.Data) { ds.Append1(d) }
	full, err := world.StartNode(p, envF, nil, world.NodeOpts{HStore: hs, DStore: ds})
	if err != nil {
		panic(err)
	}
	ctx, cancel := context.WithCancel(context.Background())
	errCh := make(chan error, 16)
	a, f := agg.M, full.M
	reaper := block.NewReaper(ctx, &world.ExecClient{Exec: envA.Exec, Fate: agg.Fate}, &world.SeqClient{Seq: envA.Seq, Fate: agg.Fate}, p.ChainID, blockTime/2, world.Logger, agg.KV)
	reaper.SetManager(a)
	var wg sync.WaitGroup
	var live sync.Map
	spawn := func(name string, fn func()) {
		wg.Add(1)
		live.Store(name, true)
		go func() { defer wg.Done(); defer live.Delete(name); fn() }()
	}
	spawn("agg:produce", func() { a.AggregationLoop(ctx, errCh) })
	spawn("agg:reaper", func() { reaper.Start(ctx) })
	spawn("agg:hdr-submit", func() { a.HeaderSubmissionLoop(ctx) })
	spawn("agg:data-submit", func() { a.DataSubmissionLoop(ctx) })
	spawn("agg:includer", func() { a.DAIncluderLoop(ctx, errCh) })
	spawn("full:retrieve", func() { f.RetrieveLoop(ctx) })
	spawn("full:p2p-headers", func() { f.HeaderStoreRetrieveLoop(ctx) })
	spawn("full:p2p-data", func() { f.DataStoreRetrieveLoop(ctx) })
	spawn("full:sync", func() { f.SyncLoop(ctx, errCh) })
	spawn("full:includer", func() { f.DAIncluderLoop(ctx, errCh) })
	// what RPC handlers and metrics do concurrently with the loops: read-only accessors of the manager
	spawn("readers", func() {
		for ctx.Err() == nil {
			_ = a.GetLastState()
			_ = f.GetLastState()
			_ = a.GetDAIncludedHeight()
			_ = f.GetDAIncludedHeight()
			_, _ = a.GetStoreHeight(ctx)
			_ = a.PendingHeaders()
			_, _ = f.IsDAIncluded(ctx, 1)
			time.Sleep(70 * time.Millisecond)
		}
	})
	for step := 0; step < horizon; step++ {
		if step == stopStep {
			break
		}
		if step%7 == 3 {
			envA.Exec.Inject([]byte(fmt.Sprintf("late-%d", step)))
			a.NotifyNewTransactions()
		}
		time.Sleep(blockTime / 10)
	}
	cancel()
	defer func() { hA, hF = agg.Height(), full.Height() }()
	done := make(chan struct{})
	go func() { wg.Wait(); close(done) }()
	select {
	case <-done:
	case <-time.After(3 * blockTime):
		live.Range(func(k, v any) bool { notReturned++; return true })
		// free blocked senders so that the bubble can end
		agg.Fate.Kill()
		full.Fate.Kill()
		for {
			select {
			case <-f.VerifHeaderInCh():
				continue
			case <-f.VerifDataInCh():
				continue
			case <-errCh:
				continue
			case <-done:
				return
			case <-time.After(blockTime):
			}
		}
	}
	return
}

// TestRaceFree runs the grid of configurations x stop instants; races are written by the runtime to GORACE's log_path.
func TestRaceFree(t *testing.T) {
	horizon := 40
	rounds := 1
	if n, err := strconv.Atoi(os.Getenv("VERIF_RACE_ROUNDS")); err == nil && n > 0 {
		rounds = n
	}
	runs := 0
	var sumA, sumF uint64
	stuck := 0
	for r := 0; r < rounds; r++ {
		for _, future := range []bool{false, true} {
			for _, da := range []time.Duration{blockTime, 3 * blockTime} {
				for _, lazy := range []bool{false, true} {
					for _, stop := range []int{7, 16, 23, 31, 40} {
						synctest.Test(t, func(t *testing.T) {
							n, a, f := run(future, da, stop, horizon, lazy)
							stuck += n
							sumA += a
							sumF += f
						})
						runs++
					}
				}
			}
		}
	}
	fmt.Printf("RACE-PASS runs=%d blocks_produced=%d blocks_synced=%d loops_not_returned=%d\n", runs, sumA, sumF, stuck)
}
