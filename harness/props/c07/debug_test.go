package c07

import (
	"fmt"
	"os"
	"testing"

	"verif/harness/explore"
)

func sameChoices(a, b []explore.Point) bool {
	if len(a) != len(b) {
		return false
	}
	for i := range a {
		if a[i] != b[i] {
			return false
		}
	}
	return true
}

func TestDebugDeterminism(t *testing.T) {
	if os.Getenv("C07_DEBUG") == "" {
		t.Skip()
	}
	var base []explore.Point
	c0 := explore.ReplayOne(nil, func(c *explore.Ctx) { bodyAgg(t, c) })
	base = c0.Choices()
	for i := 0; i < len(base); i++ {
		if base[i].N < 2 {
			continue
		}
		prefix := append(append([]explore.Point(nil), base[:i]...), explore.Point{Class: base[i].Class, N: base[i].N, Choice: 1})
		var ev [3][]string
		var ch [3][]explore.Point
		for k := 0; k < 3; k++ {
			var o outcome
			c := explore.ReplayOne(prefix, func(c *explore.Ctx) { o = bodyAgg(t, c) })
			ev[k], ch[k] = o.events, c.Choices()
			if c.Diverged != "" {
				fmt.Println("prefix", i, base[i].Class, "replay diverged:", c.Diverged)
			}
		}
		if !sameChoices(ch[0], ch[1]) || !sameChoices(ch[0], ch[2]) {
			fmt.Println("NONDETERMINISTIC after deviation at point", i, base[i].Class, len(ch[0]), len(ch[1]), len(ch[2]))
			for j := 0; j < len(ch[0]) && j < len(ch[1]); j++ {
				if ch[0][j] != ch[1][j] {
					fmt.Println(" first difference at", j, ch[0][j], ch[1][j])
					break
				}
			}
			fmt.Println("A:", ev[0])
			fmt.Println("B:", ev[1])
			return
		}
	}
	fmt.Println("no divergence")
}

func TestDebugExplore(t *testing.T) {
	if os.Getenv("C07_DEBUG") == "" {
		t.Skip()
	}
	for _, w := range []int{1, 16} {
		st := explore.Explore(explore.Config{Budgets: map[string]int{"da": 1, "crash": 1, "restart": 1, "sched": 1}, MaxExec: 2500, Workers: w}, func(c *explore.Ctx) { bodyAgg(t, c) })
		fmt.Println("workers", w, "executions", st.Executions, "nondet", len(st.NondetPre), st.Nondet)
	}
}
