package c07

import (
	"bytes"
	"context"
	"crypto/sha256"
	"encoding/binary"
	"fmt"
	"os"
	"strings"
	"sync"
	"testing"
	"testing/synctest"
	"time"

	"google.golang.org/protobuf/proto"

	coreseq "github.com/evstack/ev-node/core/sequencer"
	"github.com/evstack/ev-node/types"
	pb "github.com/evstack/ev-node/types/pb/evnode/v1"

	"verif/harness/explore"
	"verif/harness/vf"
	"verif/harness/world"
)

// C07 — the DA-included (final) height is sound, monotone, durable and eventually reached.
// Part A (sequencer node): real production step + the unmodified HeaderSubmissionLoop, DataSubmissionLoop and
// DAIncluderLoop under virtual time; the explorer picks chain contents, loop start order, DA answers, crash points
// (before Submit calls and before the loops' durable writes) and clean restarts at DA-block boundaries.
// Part B (full node): real RetrieveLoop, SyncLoop and DAIncluderLoop; blobs placed on the DA double in every
// assignment to DA heights, with a crash or clean restart at any DA-block boundary.

const daBlock = time.Second

type kind struct {
	header bool
	height uint64
	commit string // data commitment for data items
}

var memo sync.Map

func classify(blob []byte) (kind, bool) {
	k := sha256.Sum256(blob)
	if v, ok := memo.Load(k); ok {
		it := v.(kind)
		return it, it.height != 0
	}
	it := kind{}
	var hp pb.SignedHeader
	if err := proto.Unmarshal(blob, &hp); err == nil {
		sh := new(types.SignedHeader)
		if err := sh.FromProto(&hp); err == nil && sh.ValidateBasic() == nil {
			it = kind{true, sh.Height(), string(sh.Hash())}
		}
	}
	if it.height == 0 {
		var sd types.SignedData
		if err := sd.UnmarshalBinary(blob); err == nil && sd.Metadata != nil && len(sd.Txs) > 0 {
			it = kind{false, sd.Height(), string(sd.Data.DACommitment())}
		}
	}
	memo.Store(k, it)
	return it, it.height != 0
}

func le64(b []byte) uint64 {
	if len(b) != 8 {
		return 0
	}
	return binary.LittleEndian.Uint64(b)
}

type outcome struct {
	fail   *world.Fail
	tags   []string
	events []string
	sig    string
	trace  []string
}

// daTruth: where (DA heights) each header hash / data commitment really is.
func daTruth(da *world.DA) (hdr map[string][]uint64, dat map[string][]uint64) {
	hdr, dat = map[string][]uint64{}, map[string][]uint64{}
	for _, pl := range da.AllBlobs() {
		if it, ok := classify(pl.Blob); ok {
			if it.header {
				hdr[it.commit] = append(hdr[it.commit], pl.Height)
			} else {
				dat[it.commit] = append(dat[it.commit], pl.Height)
			}
		}
	}
	return
}

func contains(xs []uint64, x uint64) bool {
	for _, y := range xs {
		if y == x {
			return true
		}
	}
	return false
}

// checkIncluded verifies soundness of the reported height against the DA ground truth and the recorded DA heights.
func checkIncluded(n *world.Node, initial uint64, reported uint64) *world.Fail {
	st := world.ImageStore(n.KV.Image())
	h, blocks, f := world.ReadChain(st, initial)
	if f != nil {
		return f
	}
	if reported > h {
		return &world.Fail{Clause: "not-above-chain-height", Msg: fmt.Sprintf("DA-included height %d exceeds the chain height %d", reported, h)}
	}
	hdr, dat := daTruth(n.Env.DA)
	for x := initial; x <= reported; x++ {
		b := blocks[x-initial]
		hh := string(b.H.Hash())
		if len(hdr[hh]) == 0 {
			return &world.Fail{Clause: "sound", Msg: fmt.Sprintf("DA-included height is %d but the header of block %d is not on the DA layer", reported, x)}
		}
		dc := string(b.D.DACommitment())
		if len(b.D.Txs) > 0 && len(dat[dc]) == 0 {
			return &world.Fail{Clause: "sound", Msg: fmt.Sprintf("DA-included height is %d but the data of block %d is not on the DA layer", reported, x)}
		}
		// recorded DA heights are heights at which the blobs really are
		if v, ok := n.KV.RawGet(fmt.Sprintf("/m/rhb/%d/h", x)); ok {
			if !contains(hdr[hh], le64(v)) {
				return &world.Fail{Clause: "recorded-da-heights", Msg: fmt.Sprintf("block %d: recorded header DA height %d, the header blob is at %v", x, le64(v), hdr[hh])}
			}
		} else {
			return &world.Fail{Clause: "recorded-da-heights", Msg: fmt.Sprintf("block %d is DA-included but no header DA height is recorded", x)}
		}
		if v, ok := n.KV.RawGet(fmt.Sprintf("/m/rhb/%d/d", x)); ok {
			if len(b.D.Txs) > 0 && !contains(dat[dc], le64(v)) {
				return &world.Fail{Clause: "recorded-da-heights", Msg: fmt.Sprintf("block %d: recorded data DA height %d, the data blob is at %v", x, le64(v), dat[dc])}
			}
		} else {
			return &world.Fail{Clause: "recorded-da-heights", Msg: fmt.Sprintf("block %d is DA-included but no data DA height is recorded", x)}
		}
	}
	return nil
}

// checkFinalLog: SetFinal is asked for exactly the included heights, in order, before they are reported.
func checkFinalLog(exec *world.Exec, initial, reported uint64, crashes int) *world.Fail {
	next := initial
	repeatsLeft := crashes // one repeat of the last value directly after each crash is allowed
	for _, c := range exec.Log() {
		if c.Kind != "final" {
			continue
		}
		switch {
		case c.Height == next:
			if !c.Err {
				next++
			}
		case c.Height == next-1 && repeatsLeft > 0:
			repeatsLeft--
		default:
			return &world.Fail{Clause: "finalize-in-order", Msg: fmt.Sprintf("execution layer was asked to finalize height %d, expected %d", c.Height, next)}
		}
	}
	if reported > next-1 {
		return &world.Fail{Clause: "finalize-before-report", Msg: fmt.Sprintf("DA-included height %d is reported but the execution layer was only asked to finalize up to %d", reported, next-1)}
	}
	return nil
}

// ---------------------------------------------------------------------------------------------------------------
// Part A: sequencer node

func bodyAgg(t *testing.T, c *explore.Ctx) (out outcome) {
	synctest.Test(t, func(t *testing.T) { out = bubbleAgg(c) })
	return
}

func bubbleAgg(c *explore.Ctx) (out outcome) {
	t0 := time.Now()
	ev := func(f string, a ...any) {
		out.events = append(out.events, time.Since(t0).String()+" "+fmt.Sprintf(f, a...))
	}
	initial := uint64(1)
	sched := world.NewSched(func(n int, names []string) int { return c.Choose("sched", n) })
	var n *world.Node
	var cancel context.CancelFunc
	defer func() { out.trace = sched.Trace }()
	defer func() {
		if cancel != nil {
			cancel()
		}
		if n != nil {
			n.Fate.Kill()
		}
		sched.Off()
		synctest.Wait()
	}()
	p := world.Params{InitialHeight: initial, DABlockTime: daBlock, MempoolTTL: 2, GenesisTime: t0.Add(-time.Hour)}
	env := world.NewEnv()
	clock := t0.Add(-time.Hour)
	fresh := 0
	chainChoices := true
	env.Seq.Next = func(req coreseq.GetNextBatchRequest) world.SeqAnswer {
		clock = clock.Add(time.Second)
		if chainChoices && c.Choose("chain", 2) == 1 {
			return world.SeqAnswer{Kind: "batch", Time: clock}
		}
		fresh++
		return world.SeqAnswer{Kind: "batch", Txs: [][]byte{[]byte(fmt.Sprintf("tx-%d", fresh))}, Time: clock}
	}
	armed, settled := false, false
	var tags []string
	addTag := func(s string) {
		for _, x := range tags {
			if x == s {
				return
			}
		}
		tags = append(tags, s)
	}
	crashes := 0
	env.DA.SubmitPolicy = func(blobs [][]byte) world.SubmitAnswer {
		if settled || !armed {
			return world.SubmitAcceptAll
		}
		if c.Choose("crash", 2) == 1 {
			ev("crash before Submit")
			addTag("crash")
			n.Fate.Die()
		}
		a := world.SubmitAnswer(c.Choose("da", int(world.NumSubmitAnswers)))
		if a != world.SubmitAcceptAll {
			ev("da:%s", a)
		}
		return a
	}
	lastWrite := ""
	reported := uint64(0)
	var crashFail *world.Fail
	onWrite := func(idx int, w world.Write) bool {
		if !armed || settled {
			return false
		}
		if c.Choose("crash", 2) == 1 {
			ev("crash before write %s (after %s)", w, lastWrite)
			addTag("crash")
			// what an observer could have read at the crash instant counts as reported
			if got := n.M.GetDAIncludedHeight(); got > reported {
				reported = got
				if f := checkFinalLog(env.Exec, initial, got, crashes); f != nil && crashFail == nil {
					f.Msg = "at the crash instant: " + f.Msg
					crashFail = f
				}
			}
			return true
		}
		lastWrite = w.String()
		return false
	}
	// the execution layer may refuse one finalize call, and the write that persists the DA-included height may fail once
	faultInjected := ""
	env.Exec.FinalPolicy = func(h uint64) bool {
		if !armed || settled || faultInjected != "" {
			return false
		}
		if c.Choose("fault", 2) == 1 {
			faultInjected = fmt.Sprintf("finalize(%d) refused", h)
			ev("%s", faultInjected)
			return true
		}
		return false
	}
	failWrite := func(idx int, w world.Write) bool {
		if !armed || settled || faultInjected != "" || !strings.Contains(w.String(), "put(/m/d)") {
			return false
		}
		if c.Choose("fault", 2) == 1 {
			faultInjected = "persisting the DA-included height failed"
			ev("%s", faultInjected)
			return true
		}
		return false
	}
	errCh := make(chan error, 8)
	startLoops := func() {
		var ctx context.Context
		ctx, cancel = context.WithCancel(context.Background())
		m := n.M
		sched.Go("includer", func() { m.DAIncluderLoop(ctx, errCh) })
		sched.Go("hdr-submit", func() { m.HeaderSubmissionLoop(ctx) })
		sched.Go("data-submit", func() { m.DataSubmissionLoop(ctx) })
		sched.Drain()
	}
	boot := func(img map[string][]byte, root string) *world.Fail {
		pp := p
		pp.RootDir = root
		nn, err := world.StartNode(pp, env, img, world.NodeOpts{Aggregator: true, OnWrite: onWrite, Gate: sched.Gate})
		if err != nil {
			return &world.Fail{Clause: "startup", Msg: "node cannot start: " + err.Error()}
		}
		n = nn
		n.KV.FailWrite = failWrite
		if crashFail != nil {
			return crashFail
		}
		got := n.M.GetDAIncludedHeight()
		if got < reported {
			return &world.Fail{Clause: "monotone-across-restart", Msg: fmt.Sprintf("DA-included height was %d before the restart and is %d after it", reported, got)}
		}
		if v, ok := n.KV.RawGet("/m/d"); ok && le64(v) != got {
			return &world.Fail{Clause: "durable", Msg: fmt.Sprintf("after restart the DA-included height is %d, the persisted one is %d", got, le64(v))}
		}
		reported = got
		return nil
	}
	fail := func(f *world.Fail) outcome {
		out.fail, out.tags = f, tags
		return out
	}
	root := mkRoot()
	defer rmRoot(root)
	if f := boot(nil, root); f != nil {
		return fail(f)
	}
	// production is one more thread: its store accesses interleave with the loops' under the scheduler
	produceAsync := func() {
		m := n.M
		sched.Go("producer", func() {
			if err := m.VerifPublishBlock(context.Background()); err != nil {
				ev("produce-error:%v", err)
			}
		})
	}
	produce := func() {
		produceAsync()
		sched.Drain()
	}
	halted := false
	observe := func(when string) *world.Fail {
		select {
		case err := <-errCh:
			if faultInjected == "" {
				return &world.Fail{Clause: "includer-halts", Msg: when + ": the inclusion loop stopped with a fatal error: " + err.Error()}
			}
			halted = true // a refused finalize / failed write legitimately stops the node; what it reports must still be sound
		default:
		}
		got := n.M.GetDAIncludedHeight()
		if got < reported {
			return &world.Fail{Clause: "monotone", Msg: fmt.Sprintf("%s: DA-included height went from %d to %d", when, reported, got)}
		}
		reported = got
		if f := checkIncluded(n, initial, got); f != nil {
			f.Msg = when + ": " + f.Msg
			return f
		}
		if f := checkFinalLog(env.Exec, initial, got, crashes); f != nil {
			f.Msg = when + ": " + f.Msg
			return f
		}
		return nil
	}
	produce() // genesis block
	produce()
	armed = true
	startLoops()
	const faultTicks, settleTicks = 5, 7
	for tick := 1; tick <= faultTicks+settleTicks; tick++ {
		if tick == faultTicks+1 {
			settled = true
			chainChoices = false
			ev("settled")
		}
		// one DA block in steps of 100 ms (retry back-offs are multiples of 100 ms); the tickers fire at the last
		// step. After every sleep the harness waits for quiescence before it touches anything.
		for i := 0; i < 10; i++ {
			time.Sleep(100 * time.Millisecond)
			synctest.Wait()
			if i == 9 && (tick <= 2 || (settled && tick <= faultTicks+3)) {
				produceAsync() // production continues: the inclusion loop is only woken by submissions
			}
			sched.Drain()
		}
		if n.Fate.Crashed() {
			crashes++
			cancel()
			sched.Drain()
			synctest.Wait()
			// history feature: at the crash, the DA layer had acknowledged blocks beyond the DA-included height
			// (their DA-inclusion marks live only in the in-memory caches, which a crash loses)
			wmH, _ := n.KV.RawGet("/m/last-submitted-header-height")
			wmD, _ := n.KV.RawGet("/m/last-submitted-data-height")
			dInc, _ := n.KV.RawGet("/m/d")
			if le64(wmH) > le64(dInc) || le64(wmD) > le64(dInc) {
				addTag("sequencer-crash-with-acknowledged-blocks-not-yet-included")
			}
			ev("reboot after crash")
			if f := boot(n.KV.Image(), root); f != nil {
				return fail(f)
			}
			startLoops()
			continue
		}
		if f := observe(fmt.Sprintf("DA block %d", tick)); f != nil {
			return fail(f)
		}
		if halted {
			// the node stopped on the injected fault: after a restart it must come back with a height that did not
			// go backwards (checked in boot) — then the run ends
			cancel()
			n.Fate.Kill()
			sched.Drain()
			synctest.Wait()
			if f := boot(n.KV.Image(), root); f != nil {
				return fail(f)
			}
			out.sig = fmt.Sprintf("halted on %s, included=%d", faultInjected, reported)
			return
		}
		if !settled && c.Choose("restart", 2) == 1 {
			ev("clean restart")
			addTag("clean-restart")
			// Go picks at random between ctx.Done() and a pending tick; a loop that wins one more iteration after
			// the cancel must not consume decision points: the old process is frozen at its next environment call.
			cancel()
			n.Fate.Kill()
			sched.Drain()
			synctest.Wait()
			// a clean stop saves the caches (node/full.go does this on shutdown)
			if err := n.M.SaveCache(); err != nil {
				return fail(&world.Fail{Clause: "restart", Msg: "SaveCache: " + err.Error()})
			}
			if f := boot(n.KV.Image(), root); f != nil {
				return fail(f)
			}
			startLoops()
		}
	}
	cancel()
	n.Fate.Kill()
	sched.Drain()
	synctest.Wait()
	// liveness: everything up to the height committed when the DA settled is on the DA layer
	h := n.Height()
	hdr, dat := daTruth(env.DA)
	_, blocks, _ := world.ReadChain(world.ImageStore(n.KV.Image()), initial)
	allOn := uint64(0)
	for i, b := range blocks {
		if len(hdr[string(b.H.Hash())]) == 0 || (len(b.D.Txs) > 0 && len(dat[string(b.D.DACommitment())]) == 0) {
			break
		}
		allOn = initial + uint64(i)
	}
	target := allOn
	if target > h-1 {
		target = h - 1 // the last block may have been produced after the last inclusion round
	}
	if reported < target {
		return fail(&world.Fail{Clause: "eventually-reported", Msg: fmt.Sprintf("both parts of every block up to %d are on the DA layer, the DA accepted everything for %d DA blocks with production continuing, yet the node reports DA-included height %d (chain height %d)", allOn, settleTicks, reported, h)})
	}
	out.sig = fmt.Sprintf("h=%d included=%d crashes=%d tags=%v", h, reported, crashes, tags)
	return
}

// ---------------------------------------------------------------------------------------------------------------
// Part B: full node

func bodyFull(t *testing.T, c *explore.Ctx, pc *world.ProducerChain) (out outcome) {
	synctest.Test(t, func(t *testing.T) { out = bubbleFull(c, pc) })
	return
}

func bubbleFull(c *explore.Ctx, pc *world.ProducerChain) (out outcome) {
	env := world.NewEnv()
	var tags []string
	ev := func(f string, a ...any) { out.events = append(out.events, fmt.Sprintf(f, a...)) }
	// every blob goes to one of the DA heights 1..3; headers and data independently, possibly out of height order
	const maxDA = 3
	type placed struct {
		blob []byte
		at   uint64
	}
	var blobs []placed
	// a data blob may also be absent from the DA layer altogether (the node then gets the data over P2P only): the
	// chain still syncs, but the DA-included height must stop below that block
	firstMissing := -1
	// the last block of the chain is the "next block of a chain that keeps going": it is published after the fault
	// phase (liveness is judged under continued operation, as on the sequencer side)
	nb := pc.Len() - 1
	for i := 0; i < nb; i++ {
		blobs = append(blobs, placed{pc.HdrBlobs[i], uint64(1 + c.Choose("place", maxDA))})
		if pc.DatBlobs[i] != nil {
			k := c.Choose("place", maxDA+1)
			if k == maxDA {
				if firstMissing < 0 {
					firstMissing = i
				}
				ev("data of block %d is not on the DA layer (P2P only)", pc.Initial+uint64(i))
				continue
			}
			blobs = append(blobs, placed{pc.DatBlobs[i], uint64(1 + k)})
		}
	}
	hs := &world.P2PStore[*types.SignedHeader]{}
	ds := &world.P2PStore[*types.Data]{}
	if firstMissing >= 0 {
		for i := 0; i < nb; i++ {
			hs.Append1(pc.Header(i))
			ds.Append1(pc.DataAt(i))
		}
	}
	reported := uint64(0)
	crashes := 0
	armed := false
	var transient *world.Fail
	onWrite := func(idx int, w world.Write) bool {
		if !armed {
			return false
		}
		if c.Choose("crash", 2) == 1 {
			ev("crash before %s", w)
			tags = append(tags, "crash")
			return true
		}
		return false
	}
	p := world.Params{InitialHeight: pc.Initial, DAStartHeight: 1}
	root := mkRoot()
	defer rmRoot(root)
	p.RootDir = root
	var f *world.FullL2
	boot := func(img map[string][]byte) *world.Fail {
		armed = false
		sched := world.NewSched(func(n int, names []string) int { return c.Choose("sched", n) })
		ff, err := world.StartFullL2Sched(p, env, img, hs, ds, onWrite, sched)
		if err != nil {
			return &world.Fail{Clause: "startup", Msg: err.Error()}
		}
		f = ff
		got := f.N.M.GetDAIncludedHeight()
		if got < reported {
			return &world.Fail{Clause: "monotone-across-restart", Msg: fmt.Sprintf("DA-included height was %d before the restart and is %d after it", reported, got)}
		}
		reported = got
		// what the restarted node reports before anything is redelivered must already be sound
		if fl := checkIncluded(f.N, pc.Initial, got); fl != nil {
			fl.Msg = "directly after the restart: " + fl.Msg
			return fl
		}
		// between any two steps of the loops: the reported height never exceeds the chain height
		ff.Sched.OnStep = func() {
			if transient != nil || f.N.Fate.Crashed() {
				return
			}
			if inc, h := f.N.M.GetDAIncludedHeight(), f.N.Height(); inc > h {
				transient = &world.Fail{Clause: "not-above-chain-height", Msg: fmt.Sprintf("between two steps of the loops (after scheduler step %d, last: %s) the node reports DA-included height %d while its chain height is %d", ff.Sched.Steps, ff.Sched.Last(), inc, h)}
			}
		}
		armed = true
		return nil
	}
	fail := func(fl *world.Fail) outcome {
		out.fail, out.tags = fl, tags
		if f != nil {
			f.Stop()
		}
		return out
	}
	if fl := boot(nil); fl != nil {
		return fail(fl)
	}
	observe := func(when string) *world.Fail {
		if transient != nil {
			return transient
		}
		if len(f.Fatal) > 0 {
			return &world.Fail{Clause: "node-halts", Msg: when + ": " + f.Fatal[0]}
		}
		got := f.N.M.GetDAIncludedHeight()
		if got < reported {
			return &world.Fail{Clause: "monotone", Msg: fmt.Sprintf("%s: DA-included height went from %d to %d", when, reported, got)}
		}
		reported = got
		if fl := checkIncluded(f.N, pc.Initial, got); fl != nil {
			fl.Msg = when + ": " + fl.Msg
			return fl
		}
		return checkFinalLog(env.Exec, pc.Initial, got, crashes)
	}
	for da := uint64(1); da <= maxDA; da++ {
		for _, b := range blobs {
			if b.at == da {
				env.DA.Place(da, b.blob)
			}
		}
		env.DA.SetTip(da)
		f.TickDA()
		if firstMissing >= 0 {
			f.TickP2P()
		}
		f.TickIncluder()
		if f.N.Fate.Crashed() {
			crashes++
			img := f.N.KV.Image()
			f.Stop()
			ev("reboot after crash at DA height %d", da)
			if fl := boot(img); fl != nil {
				return fail(fl)
			}
			f.TickDA()
			f.TickIncluder()
		}
		if fl := observe(fmt.Sprintf("DA height %d", da)); fl != nil {
			return fail(fl)
		}
		if da < maxDA && c.Choose("restart", 2) == 1 {
			ev("clean restart after DA height %d", da)
			tags = append(tags, "clean-restart")
			f.Stop()
			if err := f.N.M.SaveCache(); err != nil {
				return fail(&world.Fail{Clause: "restart", Msg: err.Error()})
			}
			if fl := boot(f.N.KV.Image()); fl != nil {
				return fail(fl)
			}
		}
	}
	armed = false
	// the chain goes on: the next (empty) block is published
	env.DA.Place(maxDA+1, pc.HdrBlobs[nb])
	env.DA.SetTip(maxDA + 1)
	if firstMissing >= 0 {
		hs.Append1(pc.Header(nb))
		ds.Append1(pc.DataAt(nb))
	}
	// everything is on the DA layer: three more rounds
	for r := 0; r < 3; r++ {
		f.TickDA()
		if firstMissing >= 0 {
			f.TickP2P()
		}
		f.TickIncluder()
	}
	if fl := observe("end"); fl != nil {
		return fail(fl)
	}
	top := pc.Initial + uint64(pc.Len()) - 1
	if firstMissing >= 0 {
		top = pc.Initial + uint64(firstMissing) - 1
		if f.N.Height() != pc.Initial+uint64(pc.Len())-1 {
			return fail(&world.Fail{Clause: "engine", Msg: fmt.Sprintf("with the chain on P2P the node should have synced to %d, it is at %d", pc.Initial+uint64(pc.Len())-1, f.N.Height())})
		}
	}
	if reported != top {
		return fail(&world.Fail{Clause: "eventually-reported", Msg: fmt.Sprintf("both parts of every block up to %d are on the DA layer and were scanned, the node reports DA-included height %d (chain height %d)", top, reported, f.N.Height())})
	}
	f.Stop()
	out.sig = fmt.Sprintf("%s included=%d crashes=%d", pc.Pattern, reported, crashes)
	return
}

var _ = bytes.Equal

func mkRoot() string {
	d, err := os.MkdirTemp("", "c07-root")
	if err != nil {
		panic(err)
	}
	return d
}

func rmRoot(d string) { os.RemoveAll(d) }

func TestCheck(t *testing.T) {
	r := vf.Start("C07", "model_checking")
	if r.RunShards(16) { // bubble-heavy: one process per shard of the exploration
		return
	}
	budA := vf.Pick(r, map[string]int{"da": 1, "crash": 1, "restart": 1, "sched": 1, "fault": 1}, map[string]int{"da": 2, "crash": 1, "restart": 1, "sched": 2, "fault": 1})
	budB := vf.Pick(r, map[string]int{"crash": 1, "restart": 1, "sched": 1}, map[string]int{"crash": 1, "restart": 1, "sched": 2})
	patternsB := vf.Pick(r, []string{"ab", "ea"}, []string{"ab", "ea", "ae", "abe"})
	r.Assume = []string{
		"virtual time; interleaving granularity = loop iterations (loops are started 1 ms apart in both orders; production happens between DA blocks)",
		"'on the DA layer' = stored by the DA double; a repeat of the last finalize call directly after a crash is allowed",
		"liveness: after the fault phase the DA accepts everything for 7 DA blocks while production continues (the inclusion loop is only woken by submissions/observations)",
		"full node part: genuine blobs in every assignment to 3 DA heights, one crash/clean restart at a DA-block boundary; liveness is judged under continued operation: after the fault phase the chain's next (empty) block is published (a full node whose cache holds complete blocks but that receives no further event does not apply them — observed after a crash with stale cache files; not judged)",
	}
	if r.ReplayPath() != "" {
		var h struct {
			Part    string
			Pattern string
			Choices []explore.Point
		}
		if _, err := r.LoadReplay(&h); err != nil {
			r.EngineError(err.Error())
		} else {
			explore.ReplayOne(h.Choices, func(c *explore.Ctx) {
				var o outcome
				if h.Part == "agg" {
					o = bodyAgg(t, c)
				} else {
					pc, _ := world.BuildChain(h.Pattern+"e", 1)
					o = bodyFull(t, c, pc)
				}
				if o.fail != nil {
					fmt.Println(o.fail.Msg, o.events)
					for _, l := range o.trace {
						fmt.Println("   ", l)
					}
					r.Report(vf.Violation{Clause: o.fail.Clause, Tags: o.tags, Msg: o.fail.Msg, History: h})
				}
			})
		}
		r.Finish(vf.Coverage{Evaluations: 1, DistinctNontrivial: 1})
		return
	}
	var caps []string
	deadline := time.Now().Add(vf.Pick(r, 100*time.Second, 25*time.Minute))
	if os.Getenv("C07_ONLY") == "B" { // development aid
		budA = map[string]int{"da": 0, "crash": 0, "restart": 0, "sched": 0}
	}
	totalDev := vf.Pick(r, 2, 3)
	stA := explore.Explore(explore.Config{Budgets: budA, Total: totalDev, Free: []string{"config"}, Deadline: time.Until(deadline) / 2}, func(c *explore.Ctx) {
		o := bodyAgg(t, c)
		if o.fail != nil {
			r.Report(vf.Violation{Clause: o.fail.Clause, Tags: append(o.tags, "sequencer-node"), Msg: fmt.Sprintf("[sequencer node] %s\n events: %v", o.fail.Msg, o.events), Cost: c.Cost(), History: map[string]any{"Part": "agg", "Choices": c.Choices()}})
			r.Outcome("A:fail:" + o.fail.Clause)
			return
		}
		r.Outcome("A:" + o.sig)
		if c.Cost() >= 2 {
			r.Sample(map[string]any{"part": "sequencer node", "events": o.events, "result": o.sig})
		}
	})
	if stA.Capped != "" {
		caps = append(caps, "sequencer part: "+stA.Capped)
	}
	total := stA
	for _, pt := range patternsB {
		pc, err := world.BuildChain(pt+"e", 1) // + the block that is published after the fault phase
		if err != nil {
			r.EngineError(err.Error())
			continue
		}
		left := time.Until(deadline)
		if left <= 0 {
			caps = append(caps, "deadline before full-node pattern "+pt)
			break
		}
		st := explore.Explore(explore.Config{Budgets: budB, Total: totalDev, Deadline: left}, func(c *explore.Ctx) {
			o := bodyFull(t, c, pc)
			if o.fail != nil {
				r.Report(vf.Violation{Clause: o.fail.Clause, Tags: append(o.tags, "full-node"), Msg: fmt.Sprintf("[full node, chain genesis+%q] %s\n events: %v", pt, o.fail.Msg, o.events), Cost: c.Cost(), History: map[string]any{"Part": "full", "Pattern": pt, "Choices": c.Choices()}})
				r.Outcome("B:fail:" + o.fail.Clause)
				return
			}
			r.Outcome("B:" + o.sig + fmt.Sprint(c.Choices()))
			if c.Cost() >= 3 {
				r.Sample(map[string]any{"part": "full node", "chain": "genesis+" + pt, "events": o.events, "result": o.sig})
			}
		})
		total.Executions += st.Executions
		total.Points += st.Points
		total.Nondet = append(total.Nondet, st.Nondet...)
		if st.Capped != "" {
			caps = append(caps, "full-node part "+pt+": "+st.Capped)
		}
	}
	// full-node part, interleaving window: the in-order placement without crash or restart, but with two scheduling
	// deviations (one to hold a loop back, one to let it run inside another loop's write sequence); the invariant
	// "reported <= chain height" is evaluated between any two steps
	budW := vf.Pick(r, map[string]int{"sched": 2, "place": 0, "crash": 0, "restart": 0}, map[string]int{"sched": 3, "place": 1, "crash": 1, "restart": 0})
	var windowRuns int64
	for _, pt := range patternsB {
		pc, err := world.BuildChain(pt+"e", 1)
		if err != nil {
			r.EngineError(err.Error())
			continue
		}
		left := time.Until(deadline)
		if left <= 0 {
			caps = append(caps, "deadline before full-node window pattern "+pt)
			break
		}
		st := explore.Explore(explore.Config{Budgets: budW, Total: vf.Pick(r, 2, 3), Deadline: left, ShardDepth: 2}, func(c *explore.Ctx) {
			o := bodyFull(t, c, pc)
			if o.fail != nil {
				r.Report(vf.Violation{Clause: o.fail.Clause, Tags: append(o.tags, "full-node", "interleaving-window"), Msg: fmt.Sprintf("[full node, chain genesis+%q] %s\n events: %v", pt, o.fail.Msg, o.events), Cost: c.Cost(), History: map[string]any{"Part": "full", "Pattern": pt, "Choices": c.Choices()}})
				r.Outcome("W:fail:" + o.fail.Clause)
				return
			}
			r.Outcome("W:" + o.sig)
		})
		windowRuns += st.Executions
		total.Executions += st.Executions
		total.Points += st.Points
		total.Nondet = append(total.Nondet, st.Nondet...)
		if st.Capped != "" {
			caps = append(caps, "full-node window part "+pt+": "+st.Capped)
		}
	}
	for _, m := range total.Nondet {
		r.EngineError("nondeterminism: " + m)
	}
	r.Finish(vf.Coverage{
		Evaluations: total.Executions, DistinctNontrivial: int64(r.DistinctOutcomes()), States: total.Executions, Transitions: total.Points,
		Rule:       "sequencer part: chain contents × loop start order × DA answers × crash points × clean restarts within the budgets, real submission and inclusion loops under virtual time; full-node part: every assignment of the genuine blobs to 3 DA heights × crash points × clean restart, real retrieve/sync/inclusion loops; distinct = distinct outcome signatures",
		Exhaustive: true, Caps: caps,
		Bounds:     map[string]any{"max_total_deviations": totalDev, "budgets_sequencer": budA, "budgets_full": budB, "full_patterns": patternsB, "sequencer_executions": stA.Executions, "budgets_full_window": budW, "full_window_executions_this_shard": windowRuns},
	})
}
