package c04

import (
	"context"
	"fmt"

	kvexec "github.com/evstack/ev-node/apps/testapp/kv"

	"verif/harness/world"
)

// Real-executor part of C04: the crash/recovery histories of check_test.go with the repository's own executor
// (apps/testapp/kv.KVExecutor) as the execution layer of the AGGREGATOR instead of the harness double.
//
// The executor keeps the application state in its own database (in the test application: a second badger directory of
// the same process) and commits a block's writes there inside ExecuteTxs, i.e. BEFORE the node records the new state.
// Here that database is a world.KV ("disk") that survives the process like the node's image does: every life of the
// node opens a NEW KVExecutor (hook VerifNewKVExecutorOn = what NewKVExecutor builds, on a supplied datastore) on the
// contents the previous life left behind. The executor's commits (genesis record, one batch per executed block) are
// durable writes of the process, i.e. crash points in the same `crash` class as the node store's writes. After a crash
// both images survive as they are: the recovery runs on an executor that may already contain the writes of the block
// the node has not recorded yet.

type kvDisk struct {
	img map[string][]byte
	kv  *world.KV
}

// open returns the NodeOpts.ExecImpl of one life: a fresh KVExecutor on the surviving contents, sharing the fate of
// the node process.
func (d *kvDisk) open(env *world.Env, onWrite func(idx int, w world.Write) bool) func(n *world.Node) any {
	return func(n *world.Node) any {
		if d.kv != nil {
			d.img = d.kv.Image() // the previous life is dead: nothing writes any more
		}
		kv := world.NewKV(d.img)
		kv.Fate = n.Fate
		kv.OnWrite = onWrite
		d.kv = kv
		return &world.RealExec{Inner: kvexec.VerifNewKVExecutorOn(kv, 8), Log: env.Exec, Fate: n.Fate}
	}
}

// value reads the application's current value of a key straight from the executor's disk (harness side).
func (d *kvDisk) value(key string) (string, bool) {
	if d.kv == nil {
		return "", false
	}
	v, ok := d.kv.RawGet("/" + key)
	return string(v), ok
}

// kvRoots is the reference execution for world.CheckChain: a KVExecutor of its own on an empty database that executes
// the committed blocks once, in height order, each on the root the previous one returned. Nothing about the roots is
// modelled; the executor's own contract is C15's subject.
func kvRoots(p world.Params) *world.RootModel {
	ctx := context.Background()
	ref := kvexec.VerifNewKVExecutorOn(world.NewKV(nil), 8)
	var root []byte
	return &world.RootModel{
		Genesis: func() ([]byte, error) {
			r, _, err := ref.InitChain(ctx, world.GenesisTime, 1, p.ChainID)
			root = r
			return r, err
		},
		Next: func(b world.Block) ([]byte, error) {
			txs := make([][]byte, len(b.D.Txs))
			for i, tx := range b.D.Txs {
				txs[i] = tx
			}
			r, _, err := ref.ExecuteTxs(ctx, txs, b.H.Height(), b.H.Time(), root)
			if err != nil {
				return nil, fmt.Errorf("ExecuteTxs(%q, height %d, prev root %q): %w", txs, b.H.Height(), root, err)
			}
			root = r
			return r, nil
		},
	}
}
