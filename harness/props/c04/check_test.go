package c04

import (
	"bytes"
	"context"
	"fmt"
	"strings"
	"sync/atomic"
	"testing"
	"time"

	kvexec "github.com/evstack/ev-node/apps/testapp/kv"
	coreseq "github.com/evstack/ev-node/core/sequencer"

	"verif/harness/explore"
	"verif/harness/vf"
	"verif/harness/world"
)

// C04 — the sequencer node recovers from a crash at any point of block production.
// Every durable write of the whole run (start-up, every production step, every recovery) is a crash point;
// the explorer enumerates all combinations of up to `crash` budget crash points × chain contents.

type event struct {
	Step int    `json:"step"`
	What string `json:"what"`
}

type outcome struct {
	fail   *world.Fail
	tags   []string
	events []event
	sig    string
	ahead  int // recoveries that started with the executor's database ahead of the recorded state (kv part)
}

// body runs one history. kv=false: execution double; kv=true: the repository's KVExecutor on its own durable database
// (kv_test.go), whose commits are crash points too and whose batches are "key=value" transactions.
func body(c *explore.Ctx, steps int, kv bool) outcome {
	ctx := context.Background()
	var out outcome
	step := 0
	ev := func(f string, a ...any) { out.events = append(out.events, event{step, fmt.Sprintf(f, a...)}) }
	p := world.Params{}
	env := world.NewEnv()
	clock := world.GenesisTime
	fresh := 0
	armed := true
	var disk *kvDisk
	if kv {
		disk = &kvDisk{}
	}
	env.Seq.Next = func(req coreseq.GetNextBatchRequest) world.SeqAnswer {
		clock = clock.Add(time.Second)
		if kv {
			// 0: a batch that changes the application state (overwrites k1, adds a key); 1: empty batch;
			// 2 (only when k1 exists): a non-empty batch that rewrites k1 with the value it has (root unchanged)
			cur, has := disk.value("k1")
			alts := 2
			if has {
				alts = 3
			}
			k := 0
			if armed {
				k = c.Choose("chain", alts)
			}
			switch k {
			case 1:
				ev("seq:empty")
				return world.SeqAnswer{Kind: "batch", Time: clock}
			case 2:
				ev("seq:rewrite k1=%s", cur)
				return world.SeqAnswer{Kind: "batch", Txs: [][]byte{[]byte("k1=" + cur)}, Time: clock}
			}
			fresh++
			ev("seq:fresh%d", fresh)
			return world.SeqAnswer{Kind: "batch", Txs: [][]byte{[]byte(fmt.Sprintf("k1=v%d", fresh)), []byte(fmt.Sprintf("n%d=v%d", fresh, fresh))}, Time: clock}
		}
		if armed && c.Choose("chain", 2) == 1 {
			ev("seq:empty")
			return world.SeqAnswer{Kind: "batch", Time: clock}
		}
		fresh++
		ev("seq:fresh%d", fresh)
		return world.SeqAnswer{Kind: "batch", Txs: [][]byte{[]byte(fmt.Sprintf("tx-%d", fresh))}, Time: clock}
	}
	var crashTags []string
	if kv {
		crashTags = append(crashTags, "kv-executor")
	}
	lastWrite := ""
	onWrite := func(idx int, w world.Write) bool {
		if !armed {
			return false
		}
		if c.Choose("crash", 2) == 1 {
			ev("crash before write #%d %s (after %s)", idx, w, lastWrite)
			crashTags = append(crashTags, "crash:after["+kindOf(lastWrite)+"]before["+kindOf(w.String())+"]")
			return true
		}
		lastWrite = w.String()
		return false
	}
	// the executor's database is a second durable store of the same process: its commits are crash points too
	onExecWrite := func(idx int, w world.Write) bool {
		if !armed {
			return false
		}
		desc := "exec-db:" + w.String()
		if c.Choose("crash", 2) == 1 {
			ev("crash before executor-database write #%d %s (after %s)", idx, w, lastWrite)
			crashTags = append(crashTags, "crash:after["+kindOf(lastWrite)+"]before["+kindOf(desc)+"]")
			return true
		}
		lastWrite = desc
		return false
	}
	opts := world.NodeOpts{Aggregator: true, OnWrite: onWrite}
	if kv {
		opts.ExecImpl = disk.open(env, onExecWrite)
	}
	// what the outside world has seen: committed (chain height reached h) or broadcast header hashes
	seen := map[uint64][]byte{}
	initial := uint64(1)
	var n *world.Node
	var sent struct{ hb, db int }
	_ = sent
	tags := func() []string { return append([]string(nil), crashTags...) }
	observe := func(img map[string][]byte) *world.Fail {
		st := world.ImageStore(img)
		h, blocks, f := world.ReadChain(st, initial)
		if f != nil {
			return f
		}
		for i, b := range blocks {
			hh := initial + uint64(i)
			if old, ok := seen[hh]; ok && !bytes.Equal(old, b.H.Hash()) {
				return &world.Fail{Clause: "no-recommit", Msg: fmt.Sprintf("height %d was committed/published with header %X and now holds %X", hh, old, []byte(b.H.Hash()))}
			}
			seen[hh] = b.H.Hash()
		}
		_ = h
		return nil
	}
	boot := func(img map[string][]byte) *world.Fail {
		for {
			lastWrite = "boot"
			nn, err := world.StartNode(p, env, img, opts)
			if err == world.ErrCrashedDuringStart {
				img = nn.KV.Image()
				continue
			}
			if err != nil {
				return &world.Fail{Clause: "startup", Msg: "the node cannot start on the persisted image: " + err.Error()}
			}
			if n != nil {
				nn.HB.Sent = n.HB.Payloads()
			}
			n = nn
			return nil
		}
	}
	spec := func() world.ChainSpec {
		var bs [][][]byte
		for _, a := range env.Seq.HandedOut {
			if len(a.Txs) > 0 {
				bs = append(bs, a.Txs)
			}
		}
		sp := world.ChainSpec{ChainID: n.P.ChainID, Initial: initial, Proposer: n.Signer, Batches: bs, CheckBatches: true}
		if kv {
			sp.Roots = kvRoots(n.P) // reference: a KVExecutor of its own executes the committed chain from genesis
		}
		return sp
	}
	// execAhead (vacuity guard, not an oracle): at the crash instant the executor's database holds a root that the
	// node's recorded state does not name yet
	execAhead := func(img map[string][]byte) bool {
		if !kv {
			return false
		}
		root, err := kvexec.VerifNewKVExecutorOn(world.NewKV(disk.kv.Image()), 1).VerifStateRoot(ctx)
		if err != nil {
			return false
		}
		st, err := world.ImageStore(img).GetState(ctx)
		if err != nil {
			return len(root) > 0
		}
		return !bytes.Equal(st.AppHash, root)
	}
	full := func(when string) *world.Fail {
		// published headers are pinned too
		for _, hb := range n.HB.Payloads() {
			if old, ok := seen[hb.Height()]; ok && !bytes.Equal(old, hb.Hash()) {
				return &world.Fail{Clause: "no-recommit", Msg: fmt.Sprintf("height %d was committed with header %X but %X was published", hb.Height(), old, []byte(hb.Hash()))}
			}
			seen[hb.Height()] = hb.Hash()
		}
		if f := observe(n.KV.Image()); f != nil {
			return f
		}
		_, _, f := world.CheckChain(n.OracleStore(), spec())
		if f != nil {
			f.Msg = when + ": " + f.Msg
		}
		return f
	}
	if f := boot(nil); f != nil {
		out.fail, out.tags = f, tags()
		return out
	}
	height := n.Height()
	sig := ""
	doStep := func() *world.Fail {
		err, done := n.Produce(ctx)
		if !done {
			// crashed: what was durable at the crash instant counts as committed if the chain height says so
			img := n.KV.Image()
			if f := observe(img); f != nil {
				return f
			}
			ahead := execAhead(img)
			if ahead {
				out.ahead++
			}
			if f := boot(img); f != nil {
				return f
			}
			if f := full("after reboot"); f != nil {
				return f
			}
			if ahead {
				sig += "A" // crash with the executor's database ahead of the node's recorded state
			} else {
				sig += "X"
			}
		} else {
			if err != nil {
				ev("step-error:%s", short(err.Error()))
			}
			if f := full("after step"); f != nil {
				return f
			}
		}
		h := n.Height()
		if h < height {
			return &world.Fail{Clause: "height-monotone", Msg: fmt.Sprintf("chain height went from %d to %d", height, h)}
		}
		if h > height+1 {
			return &world.Fail{Clause: "no-skip", Msg: fmt.Sprintf("chain height went from %d to %d in one step", height, h)}
		}
		sig += fmt.Sprint(h - height)
		height = h
		return nil
	}
	for step = 1; step <= steps; step++ {
		if f := doStep(); f != nil {
			out.fail, out.tags = f, tags()
			return out
		}
	}
	armed = false
	before := height
	for k := 1; k <= 3; k++ {
		step = steps + k
		if f := doStep(); f != nil {
			out.fail, out.tags = f, tags()
			return out
		}
	}
	if height == before {
		out.fail = &world.Fail{Clause: "liveness", Msg: fmt.Sprintf("after recovery, 3 well-formed production steps added no block (height stays %d)", height)}
		out.tags = tags()
		return out
	}
	out.sig = sig + fmt.Sprintf("|+%d", height-before)
	return out
}

// kindOf reduces a write description to the kind of record written (so tags do not depend on heights).
func kindOf(w string) string {
	switch {
	case w == "boot":
		return "boot"
	case strings.HasPrefix(w, "exec-db:"):
		if strings.Contains(w, "/genesis/") {
			return "exec-genesis"
		}
		return "exec-commit"
	case bytes.Contains([]byte(w), []byte("/m/l")):
		return "batch-cursor"
	case bytes.Contains([]byte(w), []byte("batch(")):
		return "block-save"
	case bytes.Contains([]byte(w), []byte("put(/t)")):
		return "chain-height"
	case bytes.Contains([]byte(w), []byte("put(/s)")):
		return "state"
	}
	return "other"
}

func short(s string) string {
	if len(s) > 100 {
		return s[:100]
	}
	return s
}

func TestCheck(t *testing.T) {
	r := vf.Start("C04", "fault_enumeration")
	steps := vf.Pick(r, 4, 5)
	budgets := vf.Pick(r, map[string]int{"crash": 2}, map[string]int{"crash": 3})
	// real-executor part (kv_test.go): 3 alternatives per step and more crash points per step
	kvSteps := vf.Pick(r, 4, 5)
	kvBudgets := vf.Pick(r, map[string]int{"crash": 2}, map[string]int{"crash": 3})
	r.Assume = []string{
		"crash model: the process dies between two durable datastore writes (a put, a delete, one batch commit are atomic units); nothing in memory survives; the DA, execution and sequencing layers are external and survive",
		"'permanently unable to produce' is decided as: 3 well-formed production steps after recovery add no block",
		"execution/sequencing doubles as in C01",
		"real-executor part: the execution layer of the aggregator is the repository's apps/testapp/kv.KVExecutor built by the hook VerifNewKVExecutorOn on a logging datastore that survives the process (stands for its badger directory; a batch commit is atomic); every life of the node opens a new executor on what the previous life left there, the node store image and the executor image survive a crash independently as they are; the reference roots of the chain oracle come from a second KVExecutor on an empty database executing the committed blocks once in order (the executor's own contract is C15's subject)",
	}
	type hist struct {
		KV      bool
		Choices []explore.Point
	}
	report := func(o outcome, h hist, cost int, withEvents bool) {
		msg, part := o.fail.Msg, ""
		if h.KV {
			part = "[real KVExecutor as execution layer] "
		}
		if withEvents {
			msg = fmt.Sprintf("%s%s\n events: %v", part, o.fail.Msg, o.events)
		}
		var hh any = h.Choices // the double part keeps its replay format
		if h.KV {
			hh = h
		}
		r.Report(vf.Violation{Clause: o.fail.Clause, Tags: o.tags, Msg: msg, Cost: cost, History: hh})
	}
	if r.ReplayPath() != "" {
		var ch []explore.Point
		var h hist
		if _, err := r.LoadReplay(&ch); err == nil {
			h = hist{Choices: ch}
		} else if _, err := r.LoadReplay(&h); err != nil || len(h.Choices) == 0 {
			// a cache-phase artefact: re-run the (small) cache phase completely
			cachePhase(r)
			r.Finish(vf.Coverage{Evaluations: 1, DistinctNontrivial: 1})
			return
		}
		n := steps
		if h.KV {
			n = kvSteps
		}
		explore.ReplayOne(h.Choices, func(c *explore.Ctx) {
			o := body(c, n, h.KV)
			fmt.Println("signature:", o.sig, "events:", o.events)
			if o.fail != nil {
				fmt.Println(o.fail.Msg)
				report(o, h, 0, false)
			}
		})
		r.Finish(vf.Coverage{Evaluations: 1, DistinctNontrivial: 1})
		return
	}
	deadline := vf.Pick(r, 100*time.Second, 25*time.Minute)
	var dblSampled atomic.Int64
	st := explore.Explore(explore.Config{Budgets: budgets, Deadline: deadline}, func(c *explore.Ctx) {
		o := body(c, steps, false)
		if o.fail != nil {
			report(o, hist{Choices: c.Choices()}, c.Cost(), true)
			r.Outcome("fail:" + o.fail.Clause)
			return
		}
		r.Outcome(o.sig)
		if c.Cost() >= 1 && dblSampled.Add(1) <= 3 { // the evidence keeps 6 samples: leave room for the other parts
			r.Sample(map[string]any{"events": o.events, "signature": o.sig})
		}
	})
	// real-executor part
	var kvAhead, kvRewrites, kvCrashed, kvSampled atomic.Int64
	kst := explore.Explore(explore.Config{Budgets: kvBudgets, Deadline: deadline}, func(c *explore.Ctx) {
		o := body(c, kvSteps, true)
		if o.fail != nil {
			kvAhead.Add(int64(o.ahead))
			report(o, hist{KV: true, Choices: c.Choices()}, c.Cost(), true)
			r.Outcome("KV:fail:" + o.fail.Clause)
			return
		}
		kvAhead.Add(int64(o.ahead))
		if strings.ContainsAny(o.sig, "XA") {
			kvCrashed.Add(1)
		}
		for _, e := range o.events {
			if strings.HasPrefix(e.What, "seq:rewrite") {
				kvRewrites.Add(1)
				break
			}
		}
		r.Outcome("KV:" + o.sig)
		if o.ahead > 0 && kvSampled.Add(1) <= 2 {
			r.Sample(map[string]any{"part": "kv-executor", "events": o.events, "signature": o.sig})
		}
	})
	if kvAhead.Load() == 0 && kst.Capped == "" {
		r.EngineError("real-executor part is vacuous: no recovery started with the executor's database ahead of the node's recorded state")
	}
	cacheCases, cacheOps := cachePhase(r)
	for _, m := range st.Nondet {
		r.EngineError("nondeterminism: " + m)
	}
	for _, m := range kst.Nondet {
		r.EngineError("nondeterminism (real-executor part): " + m)
	}
	var caps []string
	if st.Capped != "" {
		caps = append(caps, st.Capped)
	}
	if kst.Capped != "" {
		caps = append(caps, "real-executor part: "+kst.Capped)
	}
	maxDepth := st.MaxDepth
	r.Finish(vf.Coverage{
		Evaluations: st.Executions + kst.Executions + cacheCases, DistinctNontrivial: int64(r.DistinctOutcomes()), States: st.Executions + kst.Executions + cacheCases, Transitions: st.Points + kst.Points,
		Extra: map[string]any{"cache_file_operations_logged": cacheOps, "cache_crash_images": cacheCases,
			"double_part_executions": st.Executions, "kv_executor_part_executions": kst.Executions,
			"kv_histories_with_a_crash":                                    kvCrashed.Load(),
			"kv_recoveries_with_executor_database_ahead_of_recorded_state": kvAhead.Load(),
			"kv_histories_with_a_same_value_rewrite_batch":                 kvRewrites.Load()},
		Rule: "(cache part: every prefix of the real file-operation log of SaveCache plus torn writes) + every chain content (empty / non-empty batch per step) × every subset of at most `crash` crash points among ALL durable writes of the run (first start-up, every production step, every recovery start-up and the steps after it), each followed by 3 well-formed steps; distinct = distinct signatures of per-step height growth and crash positions. " +
			"Real-executor part: the same histories with apps/testapp/kv.KVExecutor (own durable database, reopened by every life) as the aggregator's execution layer: every chain content per step over {batch that overwrites a key and adds one, empty batch, non-empty batch that rewrites a key with the value it has} × every subset of at most `crash` crash points among all durable writes of the node store AND all commits of the executor database (genesis record, one batch per executed block; first start-up, steps, recoveries), reboot on both surviving images, then 3 well-formed steps; same oracle, app hashes and recorded state compared with a reference KVExecutor executing the committed chain from genesis (signature letter A = recovery started with the executor database ahead of the recorded state)",
		Exhaustive: true, Caps: caps,
		Bounds: map[string]any{"steps": steps, "budgets": budgets, "max_decision_points": maxDepth,
			"kv_executor": map[string]any{"steps": kvSteps, "budgets": kvBudgets, "max_decision_points": kst.MaxDepth}},
	})
}
