package c04

import (
	"bytes"
	"context"
	"fmt"
	"testing"
	"time"

	coreseq "github.com/evstack/ev-node/core/sequencer"

	"verif/harness/explore"
	"verif/harness/vf"
	"verif/harness/world"
)

// C04 — the sequencer node recovers from a crash at any point of block production.
// Every durable write of the whole run (start-up, every production step, every recovery) is a crash point;
// the explorer enumerates all combinations of up to `crash` budget crash points × chain contents.

type event struct {
	Step int    `json:"step"`
	What string `json:"what"`
}

type outcome struct {
	fail   *world.Fail
	tags   []string
	events []event
	sig    string
}

func body(c *explore.Ctx, steps int) outcome {
	ctx := context.Background()
	var out outcome
	step := 0
	ev := func(f string, a ...any) { out.events = append(out.events, event{step, fmt.Sprintf(f, a...)}) }
	p := world.Params{}
	env := world.NewEnv()
	clock := world.GenesisTime
	fresh := 0
	armed := true
	env.Seq.Next = func(req coreseq.GetNextBatchRequest) world.SeqAnswer {
		clock = clock.Add(time.Second)
		if armed && c.Choose("chain", 2) == 1 {
			ev("seq:empty")
			return world.SeqAnswer{Kind: "batch", Time: clock}
		}
		fresh++
		ev("seq:fresh%d", fresh)
		return world.SeqAnswer{Kind: "batch", Txs: [][]byte{[]byte(fmt.Sprintf("tx-%d", fresh))}, Time: clock}
	}
	var crashTags []string
	lastWrite := ""
	onWrite := func(idx int, w world.Write) bool {
		if !armed {
			return false
		}
		if c.Choose("crash", 2) == 1 {
			ev("crash before write #%d %s (after %s)", idx, w, lastWrite)
			crashTags = append(crashTags, "crash:after["+kindOf(lastWrite)+"]before["+kindOf(w.String())+"]")
			return true
		}
		lastWrite = w.String()
		return false
	}
	// what the outside world has seen: committed (chain height reached h) or broadcast header hashes
	seen := map[uint64][]byte{}
	initial := uint64(1)
	var n *world.Node
	var sent struct{ hb, db int }
	_ = sent
	tags := func() []string { return append([]string(nil), crashTags...) }
	observe := func(img map[string][]byte) *world.Fail {
		st := world.ImageStore(img)
		h, blocks, f := world.ReadChain(st, initial)
		if f != nil {
			return f
		}
		for i, b := range blocks {
			hh := initial + uint64(i)
			if old, ok := seen[hh]; ok && !bytes.Equal(old, b.H.Hash()) {
				return &world.Fail{Clause: "no-recommit", Msg: fmt.Sprintf("height %d was committed/published with header %X and now holds %X", hh, old, []byte(b.H.Hash()))}
			}
			seen[hh] = b.H.Hash()
		}
		_ = h
		return nil
	}
	boot := func(img map[string][]byte) *world.Fail {
		for {
			lastWrite = "boot"
			nn, err := world.StartNode(p, env, img, world.NodeOpts{Aggregator: true, OnWrite: onWrite})
			if err == world.ErrCrashedDuringStart {
				img = nn.KV.Image()
				continue
			}
			if err != nil {
				return &world.Fail{Clause: "startup", Msg: "the node cannot start on the persisted image: " + err.Error()}
			}
			if n != nil {
				nn.HB.Sent = n.HB.Payloads()
			}
			n = nn
			return nil
		}
	}
	spec := func() world.ChainSpec {
		var bs [][][]byte
		for _, a := range env.Seq.HandedOut {
			if len(a.Txs) > 0 {
				bs = append(bs, a.Txs)
			}
		}
		return world.ChainSpec{ChainID: n.P.ChainID, Initial: initial, Proposer: n.Signer, Batches: bs, CheckBatches: true}
	}
	full := func(when string) *world.Fail {
		// published headers are pinned too
		for _, hb := range n.HB.Payloads() {
			if old, ok := seen[hb.Height()]; ok && !bytes.Equal(old, hb.Hash()) {
				return &world.Fail{Clause: "no-recommit", Msg: fmt.Sprintf("height %d was committed with header %X but %X was published", hb.Height(), old, []byte(hb.Hash()))}
			}
			seen[hb.Height()] = hb.Hash()
		}
		if f := observe(n.KV.Image()); f != nil {
			return f
		}
		_, _, f := world.CheckChain(n.OracleStore(), spec())
		if f != nil {
			f.Msg = when + ": " + f.Msg
		}
		return f
	}
	if f := boot(nil); f != nil {
		out.fail, out.tags = f, tags()
		return out
	}
	height := n.Height()
	sig := ""
	doStep := func() *world.Fail {
		err, done := n.Produce(ctx)
		if !done {
			// crashed: what was durable at the crash instant counts as committed if the chain height says so
			img := n.KV.Image()
			if f := observe(img); f != nil {
				return f
			}
			if f := boot(img); f != nil {
				return f
			}
			if f := full("after reboot"); f != nil {
				return f
			}
			sig += "X"
		} else {
			if err != nil {
				ev("step-error:%s", short(err.Error()))
			}
			if f := full("after step"); f != nil {
				return f
			}
		}
		h := n.Height()
		if h < height {
			return &world.Fail{Clause: "height-monotone", Msg: fmt.Sprintf("chain height went from %d to %d", height, h)}
		}
		if h > height+1 {
			return &world.Fail{Clause: "no-skip", Msg: fmt.Sprintf("chain height went from %d to %d in one step", height, h)}
		}
		sig += fmt.Sprint(h - height)
		height = h
		return nil
	}
	for step = 1; step <= steps; step++ {
		if f := doStep(); f != nil {
			out.fail, out.tags = f, tags()
			return out
		}
	}
	armed = false
	before := height
	for k := 1; k <= 3; k++ {
		step = steps + k
		if f := doStep(); f != nil {
			out.fail, out.tags = f, tags()
			return out
		}
	}
	if height == before {
		out.fail = &world.Fail{Clause: "liveness", Msg: fmt.Sprintf("after recovery, 3 well-formed production steps added no block (height stays %d)", height)}
		out.tags = tags()
		return out
	}
	out.sig = sig + fmt.Sprintf("|+%d", height-before)
	return out
}

// kindOf reduces a write description to the kind of record written (so tags do not depend on heights).
func kindOf(w string) string {
	switch {
	case w == "boot":
		return "boot"
	case bytes.Contains([]byte(w), []byte("/m/l")):
		return "batch-cursor"
	case bytes.Contains([]byte(w), []byte("batch(")):
		return "block-save"
	case bytes.Contains([]byte(w), []byte("put(/t)")):
		return "chain-height"
	case bytes.Contains([]byte(w), []byte("put(/s)")):
		return "state"
	}
	return "other"
}

func short(s string) string {
	if len(s) > 100 {
		return s[:100]
	}
	return s
}

func TestCheck(t *testing.T) {
	r := vf.Start("C04", "fault_enumeration")
	steps := vf.Pick(r, 4, 5)
	budgets := vf.Pick(r, map[string]int{"crash": 2}, map[string]int{"crash": 3})
	r.Assume = []string{
		"crash model: the process dies between two durable datastore writes (a put, a delete, one batch commit are atomic units); nothing in memory survives; the DA, execution and sequencing layers are external and survive",
		"'permanently unable to produce' is decided as: 3 well-formed production steps after recovery add no block",
		"execution/sequencing doubles as in C01",
	}
	run := func(c *explore.Ctx) outcome { return body(c, steps) }
	if r.ReplayPath() != "" {
		var ch []explore.Point
		if _, err := r.LoadReplay(&ch); err != nil {
			// a cache-phase artefact: re-run the (small) cache phase completely
			cachePhase(r)
		} else {
			explore.ReplayOne(ch, func(c *explore.Ctx) {
				if o := run(c); o.fail != nil {
					fmt.Println(o.fail.Msg, o.events)
					r.Report(vf.Violation{Clause: o.fail.Clause, Tags: o.tags, Msg: o.fail.Msg, History: ch})
				}
			})
		}
		r.Finish(vf.Coverage{Evaluations: 1, DistinctNontrivial: 1})
		return
	}
	var crashes int64
	st := explore.Explore(explore.Config{Budgets: budgets, Deadline: vf.Pick(r, 100*time.Second, 25*time.Minute)}, func(c *explore.Ctx) {
		o := run(c)
		if o.fail != nil {
			r.Report(vf.Violation{Clause: o.fail.Clause, Tags: o.tags, Msg: fmt.Sprintf("%s\n events: %v", o.fail.Msg, o.events), Cost: c.Cost(), History: c.Choices()})
			r.Outcome("fail:" + o.fail.Clause)
			return
		}
		r.Outcome(o.sig)
		if c.Cost() >= 1 {
			r.Sample(map[string]any{"events": o.events, "signature": o.sig})
		}
	})
	_ = crashes
	cacheCases, cacheOps := cachePhase(r)
	for _, m := range st.Nondet {
		r.EngineError("nondeterminism: " + m)
	}
	var caps []string
	if st.Capped != "" {
		caps = append(caps, st.Capped)
	}
	r.Finish(vf.Coverage{
		Evaluations: st.Executions + cacheCases, DistinctNontrivial: int64(r.DistinctOutcomes()), States: st.Executions + cacheCases, Transitions: st.Points,
		Extra:      map[string]any{"cache_file_operations_logged": cacheOps, "cache_crash_images": cacheCases},
		Rule:       "(cache part: every prefix of the real file-operation log of SaveCache plus torn writes) + every chain content (empty / non-empty batch per step) × every subset of at most `crash` crash points among ALL durable writes of the run (first start-up, every production step, every recovery start-up and the steps after it), each followed by 3 well-formed steps; distinct = distinct signatures of per-step height growth and crash positions",
		Exhaustive: true, Caps: caps,
		Bounds:     map[string]any{"steps": steps, "budgets": budgets, "max_decision_points": st.MaxDepth},
	})
}
