package c04

import (
	"context"
	"fmt"
	"os"
	"path/filepath"
	"runtime"
	"sort"
	"strings"
	"sync"
	"sync/atomic"
	"time"

	coreseq "github.com/evstack/ev-node/core/sequencer"
	"github.com/evstack/ev-node/verifshim/vos"

	"verif/harness/vf"
	"verif/harness/world"
)

// Second part of C04: a crash in the middle of writing the on-disk caches at shutdown.
// The cache package is built from an overlay copy whose "os" import is the logging shim, so the crash images are
// generated from the REAL sequence of file operations of Manager.SaveCache (every operation boundary, and torn
// writes cut at 1, middle and len-1 bytes).

func freshSeq(env *world.Env) {
	clock := world.GenesisTime.Add(time.Hour)
	k := 0
	env.Seq.Next = func(req coreseq.GetNextBatchRequest) world.SeqAnswer {
		clock = clock.Add(time.Second)
		k++
		return world.SeqAnswer{Kind: "batch", Txs: [][]byte{[]byte(fmt.Sprintf("ctx-%d", k))}, Time: clock}
	}
}

type crashCase struct {
	k, cut int
	desc   string
}

func materialize(ops []vos.Op, k, cut int, from, to string) error {
	files := map[string][]byte{}
	apply := func(o vos.Op, n int) {
		switch o.Kind {
		case "create":
			files[o.Path] = []byte{}
		case "write":
			d := o.Data
			if n >= 0 && n < len(d) {
				d = d[:n]
			}
			files[o.Path] = append(files[o.Path], d...)
		case "rename":
			if c, ok := files[o.Path]; ok {
				files[o.To] = c
				delete(files, o.Path)
			}
		case "remove":
			for p := range files {
				if p == o.Path || strings.HasPrefix(p, o.Path+"/") {
					delete(files, p)
				}
			}
		}
	}
	for i := 0; i < k; i++ {
		apply(ops[i], -1)
	}
	if cut > 0 && k < len(ops) {
		apply(ops[k], cut)
	}
	for p, c := range files {
		rel, err := filepath.Rel(from, p)
		if err != nil || strings.HasPrefix(rel, "..") {
			return fmt.Errorf("cache file outside the root dir: %s", p)
		}
		dst := filepath.Join(to, rel)
		if err := os.MkdirAll(filepath.Dir(dst), 0o755); err != nil {
			return err
		}
		if err := os.WriteFile(dst, c, 0o644); err != nil {
			return err
		}
	}
	return nil
}

func cachePhase(r *vf.Run) (evaluations int64, nOps int) {
	ctx := context.Background()
	dir0, err := os.MkdirTemp("", "c04-cache-src")
	if err != nil {
		r.EngineError(err.Error())
		return
	}
	env := world.NewEnv()
	freshSeq(env)
	n, err := world.StartNode(world.Params{RootDir: dir0}, env, nil, world.NodeOpts{Aggregator: true})
	if err != nil {
		r.EngineError("cache phase: " + err.Error())
		return
	}
	for i := 0; i < 3; i++ {
		if err, _ := n.Produce(ctx); err != nil {
			r.EngineError("cache phase produce: " + err.Error())
			return
		}
	}
	// one round of header and data submission marks items DA-included in the caches
	hs, err := n.M.VerifPendingHeaders(ctx)
	if err == nil && len(hs) > 0 {
		_ = n.M.VerifSubmitHeaders(ctx, hs)
	}
	if sd, err := n.M.VerifCreateSignedData(ctx); err == nil && len(sd) > 0 {
		_ = n.M.VerifSubmitData(ctx, sd)
	}
	vos.StartLog()
	err = n.M.SaveCache()
	ops := vos.StopLog()
	if err != nil {
		r.EngineError("SaveCache: " + err.Error())
		return
	}
	if len(ops) == 0 {
		r.EngineError("the os shim logged no file operation for SaveCache (overlay not applied to pkg/cache?)")
		return
	}
	nOps = len(ops)
	img := n.KV.Image()
	var cases []crashCase
	for k := 0; k <= len(ops); k++ {
		d := "complete"
		if k < len(ops) {
			d = fmt.Sprintf("before op %d %s %s", k, ops[k].Kind, filepath.Base(ops[k].Path))
		}
		cases = append(cases, crashCase{k, 0, d})
		if k < len(ops) && ops[k].Kind == "write" && len(ops[k].Data) > 1 {
			L := len(ops[k].Data)
			cuts := map[int]bool{1: true, L / 2: true, L - 1: true}
			var cs []int
			for c := range cuts {
				if c > 0 && c < L {
					cs = append(cs, c)
				}
			}
			sort.Ints(cs)
			for _, c := range cs {
				cases = append(cases, crashCase{k, c, fmt.Sprintf("write to %s torn after %d of %d bytes", filepath.Base(ops[k].Path), c, L)})
			}
		}
	}
	var next atomic.Int64
	var wg sync.WaitGroup
	for w := 0; w < runtime.NumCPU(); w++ {
		wg.Add(1)
		go func() {
			defer wg.Done()
			for {
				i := int(next.Add(1) - 1)
				if i >= len(cases) {
					return
				}
				cs := cases[i]
				dir, err := os.MkdirTemp("", "c04-cache-img")
				if err != nil {
					r.EngineError(err.Error())
					return
				}
				if err := materialize(ops, cs.k, cs.cut, dir0, dir); err != nil {
					r.EngineError(err.Error())
					return
				}
				env2 := world.NewEnv()
				freshSeq(env2)
				tag := "cache-write-interrupted"
				n2, err := world.StartNode(world.Params{RootDir: dir}, env2, img, world.NodeOpts{Aggregator: true})
				if err != nil {
					r.Report(vf.Violation{Clause: "startup", Tags: []string{tag}, Msg: fmt.Sprintf("crash while writing the caches at shutdown (%s): the node cannot start any more: %v", cs.desc, err), Cost: 1, History: map[string]any{"phase": "cache", "k": cs.k, "cut": cs.cut}})
					r.Outcome("cache:startup-fails")
					os.RemoveAll(dir)
					continue
				}
				before := n2.Height()
				for j := 0; j < 3; j++ {
					n2.Produce(ctx)
				}
				if n2.Height() == before {
					r.Report(vf.Violation{Clause: "liveness", Tags: []string{tag}, Msg: fmt.Sprintf("crash while writing the caches (%s): node starts but produces no block", cs.desc), Cost: 1, History: map[string]any{"phase": "cache", "k": cs.k, "cut": cs.cut}})
				} else if _, _, f := world.CheckChain(n2.OracleStore(), world.ChainSpec{ChainID: n2.P.ChainID, Initial: 1, Proposer: n2.Signer}); f != nil {
					r.Report(vf.Violation{Clause: f.Clause, Tags: []string{tag}, Msg: cs.desc + ": " + f.Msg, Cost: 1, History: map[string]any{"phase": "cache", "k": cs.k, "cut": cs.cut}})
				}
				r.Outcome("cache:ok")
				if i%17 == 0 {
					r.Sample(map[string]any{"cache_crash_case": cs.desc})
				}
				os.RemoveAll(dir)
			}
		}()
	}
	wg.Wait()
	os.RemoveAll(dir0)
	return int64(len(cases)), nOps
}
