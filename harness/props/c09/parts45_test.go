package c09

import (
	"fmt"
	"runtime"
	"sync"
	"testing"

	"verif/harness/vf"
	"verif/harness/world"
)

// ---------------------------------------------------------------------------------------------------------------
// part 4 driver

type p4stats struct {
	runs   int64
	blobs  int
	byMode map[string]int
	nodes  map[string]int
}

func runStructured(t *testing.T, r *vf.Run, pc *world.ProducerChain, blocks []int, kDel, kKeep, batch int) (st p4stats) {
	vs, nodes, err := structuredJunk(pc, blocks, kDel, kKeep)
	if err != nil {
		r.EngineError("structured junk: " + err.Error())
		return
	}
	st.nodes, st.blobs, st.byMode = nodes, len(vs), map[string]int{}
	if len(vs) == 0 {
		r.EngineError("structured junk: the generator produced nothing")
		return
	}
	run := func(part []variant, proposer bool) outcome {
		junk := make([][]byte, len(part))
		for i, v := range part {
			junk[i] = v.blob
		}
		fx := junkNextToGenuine(pc, junk)
		fx.proposerSigned = proposer
		st.runs++
		return scanFixed(t, pc, fx)
	}
	// split a failing batch down to every single failing blob
	var find func(part []variant, proposer bool) int
	find = func(part []variant, proposer bool) int {
		o := run(part, proposer)
		if o.fail == nil {
			return 0
		}
		if len(part) == 1 {
			v := part[0]
			r.Report(vf.Violation{Clause: o.fail.Clause, Tags: features(v), Msg: fmt.Sprintf("%s\n junk blob: %s = %x", o.fail.Msg, v, v.blob), Cost: 1,
				History: map[string]any{"Junk": [][]byte{v.blob}, "ProposerSigned": proposer, "What": v.String(), "Tags": features(v)}})
			r.Outcome("structured:fail:" + o.fail.Clause)
			return 1
		}
		n := find(part[:len(part)/2], proposer) + find(part[len(part)/2:], proposer)
		if n == 0 { // only the combination fails
			junk := make([][]byte, len(part))
			for i, v := range part {
				junk[i] = v.blob
			}
			r.Report(vf.Violation{Clause: o.fail.Clause, Tags: []string{"structured-junk", "combination-of-blobs"}, Msg: fmt.Sprintf("%s\n %d structured junk blobs together (none of the two halves alone), first: %s", o.fail.Msg, len(part), part[0]), Cost: len(part),
				History: map[string]any{"Junk": junk, "ProposerSigned": proposer}})
			return 1
		}
		return n
	}
	for _, mode := range []string{"stale-signature", "foreign-signed", "proposer-signed"} {
		var list []variant
		for _, v := range vs {
			if v.mode == mode {
				list = append(list, v)
			}
		}
		st.byMode[mode] = len(list)
		bad := 0
		for i := 0; i < len(list); i += batch {
			bad += find(list[i:min(i+batch, len(list))], mode == "proposer-signed")
		}
		r.Outcome(fmt.Sprintf("structured %s: %d blobs, %d make the scan fail", mode, len(list), bad))
	}
	for _, i := range []int{0, len(vs) / 3, 2 * len(vs) / 3, len(vs) - 1} {
		r.Sample(map[string]any{"part4": vs[i].String(), "blob": fmt.Sprintf("%x", vs[i].blob)})
	}
	return
}

// ---------------------------------------------------------------------------------------------------------------
// part 5: crowded DA heights

type crowdedCase struct {
	Before, After int // filler blobs before / after the genuine header+data pair of block 1
}

func filler(j int) []byte { return []byte(fmt.Sprintf("filler-%d", j)) }

func (cc crowdedCase) layout(pc *world.ProducerChain) *fixed {
	fx := &fixed{genuine: []int{1}, label: fmt.Sprintf("crowded: %d fillers, header, data, %d fillers", cc.Before, cc.After)}
	for j := 0; j < cc.Before; j++ {
		fx.blobs = append(fx.blobs, filler(j))
	}
	fx.blobs = append(fx.blobs, pc.HdrBlobs[1], pc.DatBlobs[1])
	for j := 0; j < cc.After; j++ {
		fx.blobs = append(fx.blobs, filler(cc.Before+j))
	}
	return fx
}

type p5stats struct {
	runs     int64
	batch    int
	batches  int
	maxIndex int
	maxTotal int
	maxGets  int
	caps     []string
}

const nominalBatch = 100 // types.RetrieveWithHelpers; only used if the measurement finds no boundary

func runCrowded(t *testing.T, r *vf.Run, pc *world.ProducerChain, batches int) (st p5stats) {
	if pc.DatBlobs[1] == nil {
		r.EngineError("crowded heights: block 1 of the producer chain has no data blob")
		return
	}
	st.batches = batches
	// measure the retrieval batch size: the smallest number of blobs at a height that takes two blob-fetch calls
	getsFor := func(m int) int {
		fx := &fixed{label: fmt.Sprintf("%d fillers", m)}
		for j := 0; j < m; j++ {
			fx.blobs = append(fx.blobs, filler(j))
		}
		st.runs++
		if o := scanFixed(t, pc, fx); o.fail != nil {
			r.Report(vf.Violation{Clause: o.fail.Clause, Tags: []string{"crowded-height", "fillers-only"}, Msg: o.fail.Msg, Cost: 1, History: map[string]any{"Junk": fx.blobs}})
		}
		return fx.maxGets
	}
	const probeMax = 2048
	hi := 1
	for hi <= probeMax && getsFor(hi) < 2 {
		hi *= 2
	}
	if hi > probeMax {
		st.caps = append(st.caps, fmt.Sprintf("crowded heights: %d blobs at one height are still fetched with one call; the sweep uses the nominal batch size %d and may not reach a batch boundary", probeMax, nominalBatch))
		st.batch = nominalBatch
	} else {
		lo := hi / 2 // gets(lo) < 2 (or lo == 0), gets(hi) >= 2
		for hi-lo > 1 {
			mid := (lo + hi) / 2
			if getsFor(mid) < 2 {
				lo = mid
			} else {
				hi = mid
			}
		}
		st.batch = lo
	}
	b := st.batch
	if b < 1 {
		b = 1
	}
	totals := map[int]bool{}
	for k := 1; k <= batches; k++ {
		for d := -1; d <= 2; d++ {
			totals[k*b+d] = true
		}
	}
	var cases []crowdedCase
	for before := 0; before <= batches*b+2; before++ {
		cases = append(cases, crowdedCase{before, 0})
		for tot := before + 3; tot <= batches*b+2; tot++ {
			if totals[tot] {
				cases = append(cases, crowdedCase{before, tot - before - 2})
			}
		}
	}
	var mu sync.Mutex
	var wg sync.WaitGroup
	next := 0
	for w := 0; w < runtime.NumCPU(); w++ {
		wg.Add(1)
		go func() {
			defer wg.Done()
			for {
				mu.Lock()
				i := next
				next++
				mu.Unlock()
				if i >= len(cases) {
					return
				}
				cc := cases[i]
				fx := cc.layout(pc)
				o := scanFixed(t, pc, fx)
				total := cc.Before + 2 + cc.After
				mu.Lock()
				st.runs++
				st.maxIndex = max(st.maxIndex, cc.Before+1)
				st.maxTotal = max(st.maxTotal, total)
				st.maxGets = max(st.maxGets, fx.maxGets)
				mu.Unlock()
				if o.fail != nil {
					tags := []string{"crowded-height"}
					if total > b {
						tags = append(tags, "more-than-one-retrieval-batch")
					}
					if cc.Before >= b || cc.Before+1 >= b {
						tags = append(tags, "genuine-item-beyond-first-batch")
					}
					r.Report(vf.Violation{Clause: o.fail.Clause, Tags: tags, Msg: fmt.Sprintf("%s\n DA height with %d blobs (measured retrieval batch size %d): genuine header at index %d, genuine data at index %d", o.fail.Msg, total, st.batch, cc.Before, cc.Before+1), Cost: total,
						History: map[string]any{"Crowded": cc}})
					r.Outcome("crowded:fail:" + o.fail.Clause)
					continue
				}
				r.Outcome(fmt.Sprintf("crowded: header@%d data@%d of %d blobs: both delivered with %d fetch calls", cc.Before, cc.Before+1, total, fx.maxGets))
			}
		}()
	}
	wg.Wait()
	r.Sample(map[string]any{"part5": fmt.Sprintf("measured retrieval batch size %d; %d crowded layouts, genuine items on every index 0..%d, up to %d blobs at a height, up to %d blob-fetch calls per listing", st.batch, len(cases), st.maxIndex, st.maxTotal, st.maxGets)})
	return
}
