package c09

import (
	"bytes"
	"context"
	"fmt"
	"strings"
	"sync"
	"sync/atomic"
	"testing"
	"testing/synctest"
	"time"

	"github.com/evstack/ev-node/block"

	"verif/harness/explore"
	"verif/harness/vf"
	"verif/harness/world"
)

// C09 — DA scanning never skips a height, retries on failure, survives any blob.
// The real RetrieveLoop runs in a synctest bubble against the DA double; the harness sends the retrieve signal and
// drains the event channels itself (no SyncLoop), so every emitted event is observed.
// Part 1: every DA layout (per height: empty / genuine / junk / genuine+junk / 101 blobs) × every sequence of fetch
// outcomes (ok / listing error / not found / from the future / error while fetching blobs / NO ANSWER to the listing
// call / NO ANSWER to a blob-chunk fetch — the call is parked until the retriever's own deadline ends it) within the
// budget × start heights. Part 2: arbitrary blob bytes: every prefix and every single-byte substitution of genuine blobs, and a
// fixed list of malformed shapes, next to a genuine blob. Part 3: back-pressure. Part 4 (structured_test.go): blobs that
// ARE valid protobuf but lack parts — every set of <= k fields / sub-messages / list elements of a genuine header blob
// and a genuine data blob removed, every minimal message of <= k leaves, each with a stale, a foreign and a proposer
// signature. Part 5 (parts45_test.go): crowded DA heights — more blobs than one retrieval batch, every genuine item on
// every index up to two (five) batches. A panic of the scan goroutine is reported as the violation "scan-crashes".
// Part 6 (restart_test.go): a clean restart with persisted caches in the middle of the scan — real RetrieveLoop and real
// SyncLoop, every schedule between them, a stop at every point where emitted events have not been taken by the sync loop,
// then a second life on the same store and cache directory whose rescan owes sync everything it has not got.

const (
	cEmpty = iota
	cGenuine
	cJunk
	cMixed
	cMany
	numContents
)

var contentNames = [...]string{"empty", "genuine", "junk", "genuine+junk", "101-blobs"}

var fixedJunk = [][]byte{
	{}, {0x00}, {0xff},
	{0x0a, 0xff, 0xff, 0xff, 0xff, 0x0f},                               // absurd length
	{0x0a, 0x80, 0x80, 0x80, 0x80, 0x80, 0x80, 0x80, 0x80, 0x80, 0x01}, // 10-byte varint length
	{0x08, 0x96, 0x01},                               // varint field only
	bytes.Repeat([]byte{0x0a, 0x00}, 40),             // many empty sub-messages
	[]byte("plain text that is not protobuf at all"), //
}

// noAnswerWaitCap: virtual seconds the harness keeps the clock running for one lost fetch request before it goes on
// (the retriever's own per-attempt deadline is 30 s; the cap only bounds a scan that never comes back).
const noAnswerWaitCap = 120

type emitted struct {
	header bool
	hash   string
	daH    uint64
}

func drain(m *block.Manager) []emitted {
	var out []emitted
	for {
		select {
		case e := <-m.VerifHeaderInCh():
			out = append(out, emitted{true, string(e.Header.Hash()), e.DAHeight})
			continue
		case e := <-m.VerifDataInCh():
			out = append(out, emitted{false, string(e.Data.DACommitment()), e.DAHeight})
			continue
		default:
		}
		return out
	}
}

type outcome struct {
	fail   *world.Fail
	tags   []string
	trace  []string
	sig    string
	panics string
	engine string // machinery problem (never a verdict)
	// measured: fetch requests of this run that were left without an answer
	noAnswers int
}

func body(t *testing.T, c *explore.Ctx, pc *world.ProducerChain, nHeights int) (out outcome) {
	defer func() {
		if e := recover(); e != nil {
			out.fail = &world.Fail{Clause: "no-panic", Msg: fmt.Sprint("the scan panicked: ", e)}
		}
	}()
	synctest.Test(t, func(t *testing.T) { out = bubble(c, pc, nHeights, nil) })
	return
}

// fixed is the layout of a run without choices (parts 2, 4, 5): one DA height holding exactly these blobs in this order.
type fixed struct {
	blobs   [][]byte
	genuine []int  // indices (into the producer chain) of the blocks whose genuine blobs are among blobs
	label   string // for traces
	// proposerSigned: the junk was signed with the proposer's own key; whatever of it the node hands to sync is
	// authentic by the node's own rules, so "only genuine events" is not demanded (everything else stays armed)
	proposerSigned bool
	// measured by the run: the largest number of blob-fetch calls that followed one listing call
	maxGets int
}

// junkNextToGenuine is the layout of parts 2 and 4: the first junk blob, the genuine blobs of block 0, the other junk blobs.
func junkNextToGenuine(pc *world.ProducerChain, junk [][]byte) *fixed {
	fx := &fixed{genuine: []int{0}, label: fmt.Sprintf("genuine+%d junk blobs", len(junk))}
	fx.blobs = append(fx.blobs, junk[0], pc.HdrBlobs[0])
	if pc.DatBlobs[0] != nil {
		fx.blobs = append(fx.blobs, pc.DatBlobs[0])
	}
	fx.blobs = append(fx.blobs, junk[1:]...)
	return fx
}

// bubble runs one scan; if fx != nil the layout is fixed (no choices).
func bubble(c *explore.Ctx, pc *world.ProducerChain, nHeights int, fx *fixed) (out outcome) {
	start := uint64(0)
	if c != nil {
		start = []uint64{0, 1, 3}[c.Choose("config", 3)]
	}
	env := world.NewEnv()
	p := world.Params{InitialHeight: pc.Initial, DAStartHeight: start, BlockTime: 1000 * time.Hour, DABlockTime: 1000 * time.Hour}
	first := start
	// layout
	genuineAt := map[uint64][]int{} // DA height -> block indices whose blobs are there
	next := 0
	place := func(h uint64, i int) {
		env.DA.Place(h, pc.HdrBlobs[i])
		if pc.DatBlobs[i] != nil {
			env.DA.Place(h, pc.DatBlobs[i])
		}
		genuineAt[h] = append(genuineAt[h], i)
	}
	var layout []string
	if fx != nil {
		for _, b := range fx.blobs {
			env.DA.Place(first, b)
		}
		genuineAt[first] = fx.genuine
		nHeights = 1
		layout = []string{fx.label}
	} else {
		for k := 0; k < nHeights; k++ {
			h := first + uint64(k)
			ct := c.Choose("content", numContents)
			layout = append(layout, contentNames[ct])
			switch ct {
			case cGenuine:
				if next < pc.Len() {
					place(h, next)
					next++
				}
			case cJunk:
				for _, j := range fixedJunk {
					env.DA.Place(h, j)
				}
			case cMixed:
				env.DA.Place(h, fixedJunk[3])
				if next < pc.Len() {
					place(h, next)
					next++
				}
				env.DA.Place(h, pc.HdrBlobs[0][:len(pc.HdrBlobs[0])/2])
			case cMany:
				for j := 0; j < 99; j++ {
					env.DA.Place(h, []byte(fmt.Sprintf("filler-%d-%d", h, j)))
				}
				if next < pc.Len() { // the genuine blobs sit across the 100-id chunk boundary
					place(h, next)
					next++
				}
			}
		}
	}
	tip := first + uint64(nHeights) - 1
	env.DA.SetTip(tip)
	out.trace = append(out.trace, fmt.Sprintf("start=%d layout=%v", start, layout))
	// fetch outcomes
	settled := false
	type call struct {
		h uint64
		a world.GetAnswer
	}
	var calls []call
	var answers []string
	// hung: the last listing call (or the blob-chunk fetch that followed it) got NO ANSWER and, as far as the harness
	// knows, is still parked on its context; any later listing call proves that it has returned. noAnswers counts them.
	hung, noAnswers := false, 0
	defer func() { out.noAnswers = noAnswers }()
	env.DA.GetPolicy = func(h uint64) world.GetAnswer {
		a := world.GetOK
		if !settled && c != nil && h <= tip {
			a = world.GetAnswer(c.Choose("fetch", int(world.NumGetAnswersWithLoss)))
		}
		hung = false
		if (a == world.GetNoAnswer) || (a == world.GetNoAnswerOnGet && len(env.DA.BlobsAt(h)) > 0) {
			hung = true
			noAnswers++
		}
		if a != world.GetOK {
			answers = append(answers, fmt.Sprintf("%d:%d", h, a))
		}
		rec := a
		if (a == world.GetErrorOnGet || a == world.GetNotFoundOnGet || a == world.GetNoAnswerOnGet) && len(env.DA.BlobsAt(h)) == 0 {
			rec = world.GetNotFound // nothing to fetch: the listing is an (empty) success
		}
		calls = append(calls, call{h, rec})
		return a
	}
	// the DA client reports every call: count the blob-fetch calls per listing call (measures the retrieval batch size)
	var gateMu sync.Mutex
	gets, maxGets := 0, 0
	gate := func(op string) {
		gateMu.Lock()
		defer gateMu.Unlock()
		switch {
		case strings.HasPrefix(op, "da.getids"):
			gets = 0
		case op == "da.get":
			gets++
			maxGets = max(maxGets, gets)
		}
	}
	n, err := world.StartNode(p, env, nil, world.NodeOpts{Gate: gate})
	if err != nil {
		out.fail = &world.Fail{Clause: "startup", Msg: err.Error()}
		return
	}
	ctx, cancel := context.WithCancel(context.Background())
	done := make(chan struct{})
	// The node runs RetrieveLoop as a bare goroutine: a panic anywhere below it ends the process, and after a
	// restart the same DA height is fetched again. The harness recovers it only to report it.
	var crashed any
	go func() {
		defer close(done)
		defer func() { crashed = recover() }()
		n.M.RetrieveLoop(ctx)
	}()
	defer func() { cancel(); synctest.Wait() }()
	var all []emitted
	tick := func() {
		select {
		case n.M.VerifRetrieveCh() <- struct{}{}:
		default:
		}
		time.Sleep(3 * time.Second)
		synctest.Wait()
		// a request without an answer ends only with the retriever's own deadline: keep the virtual clock running (and
		// the retrieve signal pending) until the scan has issued its next listing call, so that the calls after the
		// lost request are still decision points; the wait is capped (a scan parked for good shows up as not-stalled)
		for waited := 0; hung && waited < noAnswerWaitCap; waited++ {
			select {
			case n.M.VerifRetrieveCh() <- struct{}{}:
			default:
			}
			time.Sleep(time.Second)
			synctest.Wait()
		}
		all = append(all, drain(n.M)...)
	}
	rounds := nHeights + 2
	for r := 0; r < rounds; r++ {
		tick()
	}
	settled = true
	for r := 0; r < nHeights+2; r++ {
		tick()
	}
	select {
	case <-done:
		if crashed != nil {
			out.fail = &world.Fail{Clause: "scan-crashes", Msg: fmt.Sprintf("the scan goroutine (RetrieveLoop) panicked while processing DA height %d — the node process dies and hits the same blob again after every restart: %v (layout %v)", n.M.VerifDAHeight(), crashed, layout)}
			return
		}
		out.fail = &world.Fail{Clause: "loop-alive", Msg: "RetrieveLoop returned although the node was not stopped"}
		return
	default:
	}
	if fx != nil {
		gateMu.Lock()
		fx.maxGets = maxGets
		gateMu.Unlock()
	}
	toldEmpty := map[uint64]bool{}
	tags := []string{}
	if len(answers) > 0 {
		tags = append(tags, "fetch-faults")
	}
	if noAnswers > 0 {
		tags = append(tags, "fetch-no-answer")
	}
	// (a) the listing calls: non-decreasing, start at the configured start, pass H only after an ok / empty answer
	log := env.DA.GetIDsLog
	if len(log) == 0 || log[0] != first {
		out.fail = &world.Fail{Clause: "starts-at-configured-height", Msg: fmt.Sprintf("first examined DA height is %v, configured start is %d", log, first)}
		out.tags = tags
		return
	}
	{
		prev := log[0]
		for _, h := range log {
			if h < prev {
				out.fail = &world.Fail{Clause: "increasing-order", Msg: fmt.Sprintf("DA heights examined out of order: %v", log)}
				out.tags = tags
				return
			}
			if h > prev+1 {
				out.fail = &world.Fail{Clause: "no-skip", Msg: fmt.Sprintf("DA height %d was never examined (calls %v)", prev+1, log)}
				out.tags = tags
				return
			}
			prev = h
		}
		// a height is passed only after an ok / confirmed-empty answer for it
		good := map[uint64]bool{}
		for _, cl := range calls {
			if cl.h > first && !good[cl.h-1] {
				out.fail = &world.Fail{Clause: "passes-height-only-after-success", Msg: fmt.Sprintf("DA height %d was examined although height %d never got a successful (or confirmed empty) answer; calls (height:answer) %v", cl.h, cl.h-1, calls)}
				out.tags = tags
				return
			}
			if cl.h <= tip && (cl.a == world.GetOK || cl.a == world.GetNotFound) && !good[cl.h] {
				good[cl.h] = true
				if cl.a == world.GetNotFound {
					toldEmpty[cl.h] = true // the DA layer itself confirmed "nothing here": nothing to hand over
				}
			}
		}
	}
	cursor := n.M.VerifDAHeight()
	if cursor != tip+1 {
		out.fail = &world.Fail{Clause: "not-stalled", Msg: fmt.Sprintf("after the faults ended and %d further signals the DA cursor is %d, expected %d (tip+1); examined %v", nHeights+2, cursor, tip+1, log)}
		out.tags = tags
		return
	}
	// (b)/(c) events: exactly the genuine items of the examined heights, nothing else
	// "only genuine": anything handed to sync must be an item of the producer's chain (a mutated copy of a genuine
	// blob that still decodes to the same signed item IS that item); "must be handed over": the items placed at
	// successfully examined heights
	anyH, anyD := map[string]bool{}, map[string]bool{}
	for i := 0; i < pc.Len(); i++ {
		anyH[string(pc.Hashes[i])] = true
		anyD[string(pc.DataAt(i).DACommitment())] = true
	}
	genuineH, genuineD := map[string]bool{}, map[string]bool{}
	for dah, idxs := range genuineAt {
		if toldEmpty[dah] {
			continue
		}
		for _, i := range idxs {
			genuineH[string(pc.Hashes[i])] = true
			if pc.DatBlobs[i] != nil {
				genuineD[string(pc.DataAt(i).DACommitment())] = true
			}
		}
	}
	gotH, gotD := map[string]int{}, map[string]int{}
	for _, e := range all {
		if e.header {
			if !anyH[e.hash] && !(fx != nil && fx.proposerSigned) {
				out.fail = &world.Fail{Clause: "only-genuine-events", Msg: fmt.Sprintf("a header event with hash %X was handed to sync; no genuine blob has it", e.hash)}
				out.tags = tags
				return
			}
			gotH[e.hash]++
		} else {
			if !anyD[e.hash] && !(fx != nil && fx.proposerSigned) {
				out.fail = &world.Fail{Clause: "only-genuine-events", Msg: fmt.Sprintf("a data event with commitment %X was handed to sync; no genuine blob has it", e.hash)}
				out.tags = tags
				return
			}
			gotD[e.hash]++
		}
	}
	for h := range genuineH {
		if gotH[h] == 0 {
			out.fail = &world.Fail{Clause: "genuine-blob-handed-to-sync", Msg: fmt.Sprintf("the genuine header %X at an examined DA height was never handed to sync (layout %v, faults %v)", h, layout, answers)}
			out.tags = tags
			return
		}
	}
	for h := range genuineD {
		if gotD[h] == 0 {
			out.fail = &world.Fail{Clause: "genuine-blob-handed-to-sync", Msg: fmt.Sprintf("the genuine data %X at an examined DA height was never handed to sync (layout %v, faults %v)", h, layout, answers)}
			out.tags = tags
			return
		}
	}
	out.sig = fmt.Sprintf("start=%d %v faults=%v calls=%d events=%d", start, layout, answers, len(log), len(all))
	out.trace = append(out.trace, fmt.Sprintf("faults=%v calls=%v", answers, log))
	return
}

func TestCheck(t *testing.T) {
	r := vf.Start("C09", "exploration")
	nHeights := vf.Pick(r, 3, 4)
	budgets := vf.Pick(r, map[string]int{"fetch": 2}, map[string]int{"fetch": 2}) // thorough: one more DA height; three fetch faults on four heights (3.5 M+ executions) never completed within the tier's time
	subs := vf.Pick(r, []byte{0x00, 0xff, 0x0a, 0x80}, nil) // nil = all 255 other values
	r.Assume = []string{
		"virtual time; the harness sends the retrieve signal and drains the sync input channels itself",
		"fetch outcomes per listing call: ok / listing error / not found / from the future / error while fetching the blobs / 'blob: not found' while fetching the blobs (first chunk) / NO ANSWER to the listing call / NO ANSWER to the blob-chunk fetch that holds the height's last id (for a 101-blob height: the second chunk, after the first one succeeded); a call without an answer returns only when its context ends, with the context's error — the harness keeps virtual time running (at most 120 s per lost request) until the scan issues its next listing call, so the calls after a lost request are decision points too; the retriever's deadline itself (30 s) is not assumed, only that one exists below 120 s",
		"the 10 in-call retries and the early return on 'from the future' are accepted behaviours; a height counts as passed only after an ok or confirmed-empty answer",
		"the node runs RetrieveLoop as a bare goroutine, so a panic below it kills the process; the harness recovers the panic only to report it (clause scan-crashes)",
		"structured junk is derived from the protobuf form of the genuine blobs of the producer chain (populated fields only); junk re-signed with the proposer's own key may legitimately be handed to sync, so for it only crash / stall / delivery of the genuine blobs are judged",
		"crowded heights: filler blobs are short non-protobuf byte strings; the retrieval batch size is measured from the DA double's call log, not assumed",
		"restart part: no fetch faults; each genuine blob occurs once on the DA layer; a clean stop is 'all loops have returned, then SaveCache' as in node/full.go (the contents of the sync loop's input channels are not persisted, the store is the same datastore image); the sync loop 'takes an event' = the real SyncLoop runs with exactly that event on its input channel until it is idle again and is then descheduled (SyncLoop keeps no state between iterations besides its tickers, so it is started and cancelled around each event; the harness holds the emitted events in FIFO order per channel in between, which is what the buffered channels do); an item counts as 'sync has it' only if the sync loop took its event in the first life or its block is applied — everything else the rescan owes",
	}
	pc, err := world.BuildChain("aeb", 1)
	if err != nil {
		r.EngineError(err.Error())
		r.Finish(vf.Coverage{})
		return
	}
	if r.ReplayPath() != "" {
		var h struct {
			Choices        []explore.Point
			Junk           [][]byte
			ProposerSigned bool
			Tags           []string
			Backpressure   bool
			Data           bool
			Crowded        *crowdedCase
			Restart        bool
		}
		if _, err := r.LoadReplay(&h); err != nil {
			r.EngineError(err.Error())
		} else if h.Backpressure {
			if o := backpressure(t, pc, h.Data); o.fail != nil {
				r.Report(vf.Violation{Clause: o.fail.Clause, Tags: o.tags, Msg: o.fail.Msg, History: h})
			}
		} else if h.Restart {
			explore.ReplayOne(h.Choices, func(c *explore.Ctx) {
				o := restartBody(t, c, pc, vf.Pick(r, 3, 4), &r6stats{})
				if o.engine != "" {
					r.EngineError(o.engine)
				} else if o.fail != nil {
					fmt.Println(o.fail.Msg, o.trace)
					r.Report(vf.Violation{Clause: o.fail.Clause, Tags: o.tags, Msg: o.fail.Msg, History: h})
				}
			})
		} else if h.Crowded != nil {
			if o := scanFixed(t, pc, h.Crowded.layout(pc)); o.fail != nil {
				fmt.Println(o.fail.Msg)
				r.Report(vf.Violation{Clause: o.fail.Clause, Tags: []string{"crowded-height"}, Msg: o.fail.Msg, History: h})
			}
		} else if h.Junk != nil {
			fx := junkNextToGenuine(pc, h.Junk)
			fx.proposerSigned = h.ProposerSigned
			if o := scanFixed(t, pc, fx); o.fail != nil {
				fmt.Println(o.fail.Msg)
				r.Report(vf.Violation{Clause: o.fail.Clause, Tags: h.Tags, Msg: o.fail.Msg, History: h})
			}
		} else {
			explore.ReplayOne(h.Choices, func(c *explore.Ctx) {
				if o := body(t, c, pc, nHeights); o.fail != nil {
					fmt.Println(o.fail.Msg, o.trace)
					r.Report(vf.Violation{Clause: o.fail.Clause, Tags: o.tags, Msg: o.fail.Msg, History: h})
				}
			})
		}
		r.Finish(vf.Coverage{Evaluations: 1, DistinctNontrivial: 1})
		return
	}
	var p1NoAnswer atomic.Int64
	st := explore.Explore(explore.Config{Budgets: budgets, Deadline: vf.Pick(r, 80*time.Second, 20*time.Minute)}, func(c *explore.Ctx) {
		o := body(t, c, pc, nHeights)
		if o.noAnswers > 0 {
			p1NoAnswer.Add(1)
		}
		if o.fail != nil {
			r.Report(vf.Violation{Clause: o.fail.Clause, Tags: o.tags, Msg: fmt.Sprintf("%s\n %v", o.fail.Msg, o.trace), Cost: c.Cost(), History: map[string]any{"Choices": c.Choices()}})
			r.Outcome("fail:" + o.fail.Clause)
			return
		}
		r.Outcome(o.sig)
		if c.Cost() >= 4 {
			r.Sample(o.sig)
		}
	})
	for _, m := range st.Nondet {
		r.EngineError("nondeterminism: " + m)
	}
	var caps []string
	if st.Capped != "" {
		caps = append(caps, st.Capped)
	}
	// part 2: arbitrary bytes
	var junk [][]byte
	junk = append(junk, fixedJunk...)
	for _, g := range [][]byte{pc.HdrBlobs[1], pc.DatBlobs[1]} {
		for cut := 0; cut < len(g); cut++ {
			junk = append(junk, g[:cut])
		}
		for pos := 0; pos < len(g); pos++ {
			if subs != nil {
				for _, v := range subs {
					if g[pos] != v {
						m := append([]byte(nil), g...)
						m[pos] = v
						junk = append(junk, m)
					}
				}
				m := append([]byte(nil), g...)
				m[pos] ^= 0x01
				junk = append(junk, m)
			} else {
				for v := 0; v < 256; v++ {
					if g[pos] != byte(v) {
						m := append([]byte(nil), g...)
						m[pos] = byte(v)
						junk = append(junk, m)
					}
				}
			}
		}
	}
	var p2runs int64
	const batch = 250
	for i := 0; i < len(junk); i += batch {
		end := min(i+batch, len(junk))
		o := part2(t, pc, junk[i:end])
		p2runs++
		if o.fail != nil {
			// bisect to the single blob
			lo := junk[i:end]
			for len(lo) > 1 {
				half := lo[:len(lo)/2]
				if oo := part2(t, pc, half); oo.fail != nil {
					lo = half
				} else {
					lo = lo[len(lo)/2:]
				}
				p2runs++
			}
			r.Report(vf.Violation{Clause: o.fail.Clause, Tags: []string{"arbitrary-bytes"}, Msg: fmt.Sprintf("%s (blob %x)", o.fail.Msg, lo[0]), Cost: 1, History: map[string]any{"Junk": lo}})
		}
	}
	for _, data := range []bool{false, true} {
		p2runs++
		if o := backpressure(t, pc, data); o.fail != nil {
			r.Report(vf.Violation{Clause: o.fail.Clause, Tags: o.tags, Msg: o.fail.Msg, Cost: 1, History: map[string]any{"Backpressure": true, "Data": data}})
		} else {
			r.Outcome(fmt.Sprintf("back-pressure data=%v: delivered after drain", data))
		}
	}
	r.Sample(map[string]any{"part2": fmt.Sprintf("%d mutated/truncated blobs in %d scans of %d blobs next to a genuine header+data", len(junk), p2runs, batch)})
	// part 4: structurally valid protobuf with missing parts
	kDel, kKeep := vf.Pick(r, 2, 4), vf.Pick(r, 2, 3)
	p4blocks := vf.Pick(r, []int{1}, []int{1, 2, 3})
	p4 := runStructured(t, r, pc, p4blocks, kDel, kKeep, batch)
	// part 5: crowded DA heights (more blobs than one retrieval batch)
	p5 := runCrowded(t, r, pc, vf.Pick(r, 2, 5))
	caps = append(caps, p5.caps...)
	// part 6: clean restart with persisted caches in the middle of the scan
	p6 := runRestart(t, r, pc, vf.Pick(r, 3, 4), vf.Pick(r, 150*time.Second, 18*time.Minute))
	caps = append(caps, p6.caps...)
	bounds := map[string]any{"da_heights": nHeights, "budgets": budgets, "fetch_outcomes_per_listing_call": int(world.NumGetAnswersWithLoss), "fetch_no_answer_wait_cap_virtual_seconds": noAnswerWaitCap, "part1_executions": st.Executions, "part1_executions_with_a_request_left_unanswered": p1NoAnswer.Load(), "junk_blobs": len(junk), "substitution_values_per_position": map[bool]any{true: 255, false: len(subs) + 1}[subs == nil],
		"structured_k_delete": kDel, "structured_k_keep": kKeep, "structured_source_blocks": p4blocks, "structured_nodes": p4.nodes, "structured_blobs": p4.blobs, "structured_blobs_by_mode": p4.byMode, "structured_scans": p4.runs,
		"crowded_measured_batch_size": p5.batch, "crowded_batches": p5.batches, "crowded_max_index_of_a_genuine_item": p5.maxIndex, "crowded_max_blobs_at_a_height": p5.maxTotal, "crowded_scans": p5.runs, "crowded_max_fetch_calls_per_listing": p5.maxGets}
	for k, v := range p6.bounds {
		bounds[k] = v
	}
	r.Finish(vf.Coverage{
		Evaluations: st.Executions + p2runs + p4.runs + p5.runs + p6.runs, DistinctNontrivial: int64(r.DistinctOutcomes()), States: st.Executions + p6.runs, Transitions: st.Points + p6.points,
		Rule:       "part 1: every DA layout (5 content kinds per height) × start height {0,1,3} × every sequence of fetch outcomes (8 per listing call: the 6 immediate answers plus 'the listing call gets no answer' and 'a blob-chunk fetch gets no answer', both ending only with the retriever's own per-attempt deadline) within the budget, real RetrieveLoop under virtual time; a DA height whose only requests ended without an answer counts as neither fetched nor confirmed empty, so a listing call for the next height is the violation passes-height-only-after-success (tag fetch-no-answer); part 3: a genuine blob scanned while the sync loop's input channel is full (back-pressure) must arrive once the channel is drained; part 2: every prefix and single-byte substitution of a genuine header blob and a genuine data blob plus malformed shapes, scanned in batches of 250 next to genuine blobs; part 4: the protobuf forms of a genuine header blob and a genuine data blob with every set of <= k_delete populated fields / sub-messages / repeated-field elements removed (a sub-message removed or left present-but-empty) and every minimal message keeping <= k_keep leaves, each as it is (stale signature), re-signed by a foreign key and re-signed by the proposer's key, scanned in batches of 250 next to genuine blobs, failing batches split down to every single failing blob; a panic of the scan goroutine is the violation scan-crashes; part 5: crowded DA heights: the retrieval batch size b is measured (blob-fetch calls per listing call), then one DA height holds i filler blobs, a genuine header, a genuine data blob and j filler blobs for every i in 0..batches*b+2 and every j that ends the height on a total in {k*b-1..k*b+2} or right after the genuine pair: every genuine item sits on every index of the height incl. b-1, b, b+1, 2b, 2b+1 and must reach sync; part 6: clean restart with persisted caches in the middle of the scan: for the configurations (start height in {0,1,3}) x (blocks dealt to the DA heights in ascending / descending order) named in bounds.restart_configurations, every layout of the DA heights over {empty, the next block's genuine blobs, the next two blocks' genuine blobs, junk + the next block's genuine blobs + junk}, EVERY schedule of the first life over {scan the next DA height, the sync loop takes the next header event, the sync loop takes the next data event} (real RetrieveLoop and real SyncLoop of one Manager) and a clean stop (loops cancelled, SaveCache) at EVERY point of every such schedule at which k >= 1 emitted events have not been taken by the sync loop; then NewManager on the same store and the same cache directory (LoadCache), the whole DA layer available, the scan runs again: it must not resume beyond a height holding a genuine item that sync never got, must reach tip+1, must hand over only genuine items, and every genuine item at an examined height that the sync loop has not taken in the first life and whose block is not applied must be handed to sync (again); distinct = distinct (layout, faults, calls, events) signatures resp. (layout, first-life schedule, rescan) signatures",
		Exhaustive: true, Caps: caps,
		Bounds: bounds,
	})
}

func part2(t *testing.T, pc *world.ProducerChain, junk [][]byte) (out outcome) {
	defer func() {
		if e := recover(); e != nil {
			out.fail = &world.Fail{Clause: "no-panic", Msg: fmt.Sprint("the scan panicked on arbitrary blob bytes: ", e)}
		}
	}()
	synctest.Test(t, func(t *testing.T) { out = bubble(nil, pc, 1, junkNextToGenuine(pc, junk)) })
	return
}

// scanFixed runs one scan of a fixed layout.
func scanFixed(t *testing.T, pc *world.ProducerChain, fx *fixed) (out outcome) {
	defer func() {
		if e := recover(); e != nil {
			out.fail = &world.Fail{Clause: "no-panic", Msg: fmt.Sprint("the scan panicked: ", e)}
		}
	}()
	synctest.Test(t, func(t *testing.T) { out = bubble(nil, pc, 1, fx) })
	return
}

// part 3: back-pressure. The sync loop's input channel is full (the sync loop lags behind the scan); a genuine blob at the
// examined height must still reach sync once there is room — the scan has to wait, it must not drop the blob and move on.
func backpressure(t *testing.T, pc *world.ProducerChain, data bool) (out outcome) {
	defer func() {
		if e := recover(); e != nil {
			out.fail = &world.Fail{Clause: "no-panic", Msg: fmt.Sprint("the scan panicked under back-pressure: ", e)}
		}
	}()
	synctest.Test(t, func(t *testing.T) {
		env := world.NewEnv()
		p := world.Params{InitialHeight: pc.Initial, DAStartHeight: 1, BlockTime: 1000 * time.Hour, DABlockTime: 1000 * time.Hour}
		n, err := world.StartNode(p, env, nil, world.NodeOpts{})
		if err != nil {
			out.fail = &world.Fail{Clause: "startup", Msg: err.Error()}
			return
		}
		m := n.M
		want := string(pc.Hashes[1])
		if data {
			env.DA.Place(1, pc.DatBlobs[1])
			want = string(pc.DataAt(1).DACommitment())
			for i := 0; i < cap(m.VerifDataInCh()); i++ {
				m.VerifDataInCh() <- block.NewDataEvent{Data: pc.DataAt(2), DAHeight: 0}
			}
		} else {
			env.DA.Place(1, pc.HdrBlobs[1])
			for i := 0; i < cap(m.VerifHeaderInCh()); i++ {
				m.VerifHeaderInCh() <- block.NewHeaderEvent{Header: pc.Header(0), DAHeight: 0}
			}
		}
		env.DA.SetTip(1)
		ctx, cancel := context.WithCancel(context.Background())
		defer func() { cancel(); drain(m); synctest.Wait() }()
		var crashed any
		go func() {
			defer func() { crashed = recover() }()
			m.RetrieveLoop(ctx)
		}()
		m.VerifRetrieveCh() <- struct{}{}
		time.Sleep(3 * time.Second)
		synctest.Wait()
		got := false
		for round := 0; round < 3 && !got; round++ {
			for _, e := range drain(m) {
				if e.hash == want && e.daH == 1 {
					got = true
				}
			}
			time.Sleep(3 * time.Second)
			synctest.Wait()
		}
		if crashed != nil {
			out.fail = &world.Fail{Clause: "scan-crashes", Msg: fmt.Sprint("the scan goroutine (RetrieveLoop) panicked under back-pressure: ", crashed)}
			out.tags = []string{"back-pressure"}
		} else if !got {
			kind := map[bool]string{true: "data", false: "header"}[data]
			out.fail = &world.Fail{Clause: "genuine-blob-handed-to-sync", Msg: fmt.Sprintf("with the sync loop's %s channel full (%d events waiting) the genuine %s blob at DA height 1 never reached sync although the channel was drained afterwards; the DA cursor is at %d", kind, cap(m.VerifHeaderInCh()), kind, m.VerifDAHeight())}
			out.tags = []string{"back-pressure"}
		}
	})
	return
}
