package c09

import (
	"context"
	"fmt"
	"os"
	"path/filepath"
	"strings"
	"sync/atomic"
	"testing"
	"testing/synctest"
	"time"

	"github.com/evstack/ev-node/block"

	"verif/harness/explore"
	"verif/harness/vf"
	"verif/harness/world"
)

// Part 6: a clean restart with persisted caches in the middle of a DA scan.
//
// A node that is stopped cleanly saves its header and data caches (Manager.SaveCache: items waiting by height, "seen"
// marks, DA-inclusion marks) and loads them again when it starts (NewManager -> LoadCache). What sits in the sync
// loop's input channels is NOT saved, and a syncing node scans the DA layer again from its configured start height.
// So every genuine blob that the first life scanned but whose event the sync loop had not taken off its channel yet
// exists, after the restart, only on the DA layer: the rescan has to hand it to sync again.
//
// First life: the real RetrieveLoop and the real SyncLoop of one Manager. The explorer owns the schedule between the
// two: at every point it picks "scan the next DA height" (the DA tip moves by one, the scan emits that height's
// events), "the sync loop takes the next header event", "the sync loop takes the next data event" or "stop the node
// here" (offered whenever k >= 1 emitted events have not been taken by the sync loop). Second life: NewManager on the
// same store and the same cache directory, the whole DA layer is available, the scan runs again.

const (
	r6Empty = iota
	r6One
	r6Two
	r6Mixed
	numR6
)

var r6Names = [...]string{"empty", "genuine", "two-blocks", "junk+genuine+junk"}

var r6Seq atomic.Int64

type r6stats struct {
	stops        atomic.Int64 // executions with a stop (k >= 1 events not taken by sync)
	noStop       atomic.Int64 // executions that ended with everything scanned and taken (no stop point left)
	maxLost      atomic.Int64 // largest k
	rehanded     atomic.Int64 // genuine items that the second life had to hand over again, and did
	exemptSync   atomic.Int64 // genuine items not handed over again because the sync loop had taken them in the first life
	exemptDone   atomic.Int64 // ... because their block was already applied
	neverScanned atomic.Int64 // genuine items the first life had not reached; handed over by the second
}

func restartBody(t *testing.T, c *explore.Ctx, pc *world.ProducerChain, nHeights int, st *r6stats) (out outcome) {
	defer func() {
		if e := recover(); e != nil {
			out.fail = &world.Fail{Clause: "no-panic", Msg: fmt.Sprint("the scan panicked: ", e)}
		}
	}()
	synctest.Test(t, func(t *testing.T) { out = restartBubble(c, pc, nHeights, st) })
	return
}

type r6item struct {
	header bool
	idx    int    // block index in the producer chain
	daH    uint64 // where its blob sits
	hash   string
}

func (it r6item) String() string {
	if it.header {
		return fmt.Sprintf("H%d@%d", it.idx, it.daH)
	}
	return fmt.Sprintf("D%d@%d", it.idx, it.daH)
}

func restartBubble(c *explore.Ctx, pc *world.ProducerChain, nHeights int, st *r6stats) (out outcome) {
	start := []uint64{0, 1, 3}[c.Choose("config", 3)]
	descending := c.Choose("config", 2) == 1 // blocks are dealt to the DA heights in descending block order
	first := start
	tip := first + uint64(nHeights) - 1
	root := filepath.Join(os.TempDir(), fmt.Sprintf("c09-restart-%d-%d", os.Getpid(), r6Seq.Add(1)))
	defer os.RemoveAll(root)
	env := world.NewEnv()
	p := world.Params{InitialHeight: pc.Initial, DAStartHeight: start, BlockTime: 1000 * time.Hour, DABlockTime: 1000 * time.Hour, RootDir: root}

	// layout
	kinds := make([]int, nHeights)
	slots := 0
	var layout []string
	for k := range kinds {
		kinds[k] = c.Choose("content", numR6)
		layout = append(layout, r6Names[kinds[k]])
		switch kinds[k] {
		case r6One, r6Mixed:
			slots++
		case r6Two:
			slots += 2
		}
	}
	slots = min(slots, pc.Len())
	next := 0
	takeBlock := func() int {
		if next >= slots {
			return -1
		}
		i := next
		if descending {
			i = slots - 1 - next
		}
		next++
		return i
	}
	var items []r6item
	byHash := map[string]r6item{}
	place := func(h uint64) {
		i := takeBlock()
		if i < 0 {
			return
		}
		env.DA.Place(h, pc.HdrBlobs[i])
		it := r6item{true, i, h, "h:" + string(pc.Hashes[i])}
		items, byHash[it.hash] = append(items, it), it
		if pc.DatBlobs[i] != nil {
			env.DA.Place(h, pc.DatBlobs[i])
			it := r6item{false, i, h, "d:" + string(pc.DataAt(i).DACommitment())}
			items, byHash[it.hash] = append(items, it), it
		}
	}
	for k, kind := range kinds {
		h := first + uint64(k)
		switch kind {
		case r6One:
			place(h)
		case r6Two:
			place(h)
			place(h)
		case r6Mixed:
			env.DA.Place(h, fixedJunk[3])
			place(h)
			env.DA.Place(h, pc.HdrBlobs[0][:len(pc.HdrBlobs[0])/2])
		}
	}
	order := "ascending"
	if descending {
		order = "descending"
	}
	out.trace = append(out.trace, fmt.Sprintf("start=%d layout=%v blocks=%s", start, layout, order))
	tags := []string{"clean-restart"}
	failf := func(clause, format string, a ...any) outcome {
		out.fail = &world.Fail{Clause: clause, Msg: fmt.Sprintf(format, a...)}
		out.tags = tags
		return out
	}

	// ---------------------------------------------------------------------------------------------------------------
	// first life
	// (Place moved the tip; every "scan" step sets it, so that the first life sees the DA layer grow one height per step)
	n, err := world.StartNode(p, env, nil, world.NodeOpts{})
	if err != nil {
		out.engine = "first life: " + err.Error()
		return
	}
	ctx, cancel := context.WithCancel(context.Background())
	done := make(chan struct{})
	var crashed any
	go func() {
		defer close(done)
		defer func() { crashed = recover() }()
		n.M.RetrieveLoop(ctx)
	}()
	stopped := false
	defer func() {
		if !stopped {
			cancel()
			synctest.Wait()
		}
	}()
	var qH []block.NewHeaderEvent
	var qD []block.NewDataEvent
	emitted1 := map[string]int{}
	collect := func(m *block.Manager, seen map[string]int) *world.Fail {
		for {
			select {
			case e := <-m.VerifHeaderInCh():
				k := "h:" + string(e.Header.Hash())
				if _, ok := byHash[k]; !ok {
					return &world.Fail{Clause: "only-genuine-events", Msg: fmt.Sprintf("a header event with hash %X was handed to sync; no genuine blob has it", e.Header.Hash())}
				}
				seen[k]++
				qH = append(qH, e)
				continue
			case e := <-m.VerifDataInCh():
				k := "d:" + string(e.Data.DACommitment())
				if _, ok := byHash[k]; !ok {
					return &world.Fail{Clause: "only-genuine-events", Msg: fmt.Sprintf("a data event with commitment %X was handed to sync; no genuine blob has it", e.Data.DACommitment())}
				}
				seen[k]++
				qD = append(qD, e)
				continue
			default:
			}
			return nil
		}
	}
	tick := func(m *block.Manager) {
		select {
		case m.VerifRetrieveCh() <- struct{}{}:
		default:
		}
		time.Sleep(3 * time.Second)
		synctest.Wait()
	}
	scanDied := func(m *block.Manager, life string) bool {
		select {
		case <-done:
			if crashed != nil {
				failf("scan-crashes", "%s: the scan goroutine (RetrieveLoop) panicked while processing DA height %d: %v (layout %v)", life, m.VerifDAHeight(), crashed, layout)
			} else {
				failf("loop-alive", "%s: RetrieveLoop returned although the node was not stopped", life)
			}
			return true
		default:
			return false
		}
	}
	errCh := make(chan error, 4)
	taken := map[string]bool{} // events the sync loop took off its channels in the first life
	// take: the sync loop runs, finds exactly this event on its channel, handles it and is descheduled again
	take := func(push func()) (fatal string) {
		sctx, scancel := context.WithCancel(context.Background())
		sdone := make(chan struct{})
		go func() {
			defer close(sdone)
			defer func() {
				if e := recover(); e != nil {
					fatal = fmt.Sprint("SyncLoop panicked: ", e)
				}
			}()
			n.M.SyncLoop(sctx, errCh)
		}()
		synctest.Wait()
		push()
		synctest.Wait()
		scancel()
		<-sdone
		select {
		case err := <-errCh:
			fatal = err.Error()
		default:
		}
		return
	}
	scanned := 0
	var hist []string
	for !stopped {
		var acts []string
		if scanned < nHeights {
			acts = append(acts, "scan")
		}
		if len(qH) > 0 {
			acts = append(acts, "header")
		}
		if len(qD) > 0 {
			acts = append(acts, "data")
		}
		if len(qH)+len(qD) >= 1 {
			acts = append(acts, "stop")
		}
		if len(acts) == 0 {
			break
		}
		switch acts[c.Choose("act", len(acts))] {
		case "scan":
			env.DA.SetTip(first + uint64(scanned))
			scanned++
			tick(n.M)
			if scanDied(n.M, "first life") {
				return
			}
			if f := collect(n.M, emitted1); f != nil {
				out.fail, out.tags = f, append(tags, "before-restart")
				return
			}
			hist = append(hist, fmt.Sprintf("scan(%d)", first+uint64(scanned)-1))
		case "header":
			e := qH[0]
			qH = qH[1:]
			k := "h:" + string(e.Header.Hash())
			if fatal := take(func() { n.M.VerifHeaderInCh() <- e }); fatal != "" {
				out.sig = "part6: the sync loop stopped with a fatal error in the first life (not judged here): " + fatal
				return
			}
			taken[k] = true
			hist = append(hist, "sync-takes("+byHash[k].String()+")")
		case "data":
			e := qD[0]
			qD = qD[1:]
			k := "d:" + string(e.Data.DACommitment())
			if fatal := take(func() { n.M.VerifDataInCh() <- e }); fatal != "" {
				out.sig = "part6: the sync loop stopped with a fatal error in the first life (not judged here): " + fatal
				return
			}
			taken[k] = true
			hist = append(hist, "sync-takes("+byHash[k].String()+")")
		case "stop":
			stopped = true
		}
	}
	// the first life handed over everything it examined (same clause as part 1; all blobs are distinct and new)
	cursor1 := n.M.VerifDAHeight()
	if want := first + uint64(scanned); cursor1 != want {
		return failf("not-stalled", "first life: after %d scan steps the DA cursor is %d, expected %d (history %v)", scanned, cursor1, want, hist)
	}
	for _, it := range items {
		if it.daH < cursor1 && emitted1[it.hash] == 0 {
			out.fail = &world.Fail{Clause: "genuine-blob-handed-to-sync", Msg: fmt.Sprintf("first life: the genuine item %s at an examined DA height was never handed to sync (layout %v)", it, layout)}
			out.tags = append(tags, "before-restart")
			return
		}
	}
	if !stopped {
		st.noStop.Add(1)
		out.sig = "part6: everything scanned and taken, no stop point left"
		return
	}
	var lost []string
	for _, e := range qH {
		lost = append(lost, byHash["h:"+string(e.Header.Hash())].String())
	}
	for _, e := range qD {
		lost = append(lost, byHash["d:"+string(e.Data.DACommitment())].String())
	}
	hist = append(hist, fmt.Sprintf("STOP(lost with the process: %v)", lost))
	st.stops.Add(1)
	out.trace = append(out.trace, strings.Join(hist, " "))
	// clean stop: the loops end, then the caches are saved (node/full.go)
	cancel()
	synctest.Wait()
	select {
	case <-done:
	default:
		out.engine = "first life: RetrieveLoop did not return after its context was cancelled"
		return
	}
	if crashed != nil {
		return failf("scan-crashes", "first life: the scan goroutine panicked while stopping: %v", crashed)
	}
	if err := n.M.SaveCache(); err != nil {
		out.engine = "SaveCache: " + err.Error()
		return
	}
	applied := n.Height()

	// ---------------------------------------------------------------------------------------------------------------
	// second life: same store, same cache directory, the whole DA layer is there
	env.DA.SetTip(tip)
	logOff := len(env.DA.GetIDsLog)
	n2, err := world.StartNode(p, env, n.KV.Image(), world.NodeOpts{})
	if err != nil {
		return failf("restart", "the node does not start again after a clean stop: %v (history %v)", err, hist)
	}
	ctx2, cancel2 := context.WithCancel(context.Background())
	done = make(chan struct{})
	crashed = nil
	go func(done chan struct{}) {
		defer close(done)
		defer func() { crashed = recover() }()
		n2.M.RetrieveLoop(ctx2)
	}(done)
	defer func() { cancel2(); synctest.Wait() }()
	qH, qD = nil, nil
	emitted2 := map[string]int{}
	for r := 0; r < nHeights+2; r++ {
		tick(n2.M)
		if f := collect(n2.M, emitted2); f != nil {
			out.fail, out.tags = f, append(tags, "after-restart")
			return
		}
	}
	if scanDied(n2.M, "second life") {
		return
	}
	log2 := env.DA.GetIDsLog[logOff:]
	// what the second life owes: every genuine item that sync has not got — neither taken by the sync loop in the
	// first life (then it is in the persisted caches or applied) nor part of an applied block
	type debt struct {
		it  r6item
		why string
	}
	var owed []debt
	for _, it := range items {
		switch {
		case pc.Initial+uint64(it.idx) <= applied:
			st.exemptDone.Add(1)
		case taken[it.hash]:
			st.exemptSync.Add(1)
		case emitted1[it.hash] > 0:
			owed = append(owed, debt{it, "scanned-but-not-taken-by-sync-before-restart"})
		default:
			owed = append(owed, debt{it, "not-scanned-before-restart"})
		}
	}
	if len(log2) == 0 {
		return failf("not-stalled", "second life: no DA height was examined after %d retrieve signals (history %v)", nHeights+2, hist)
	}
	prev := log2[0]
	for _, h := range log2 {
		if h < prev {
			return failf("increasing-order", "second life: DA heights examined out of order: %v", log2)
		}
		if h > prev+1 {
			return failf("no-skip", "second life: DA height %d was never examined (calls %v)", prev+1, log2)
		}
		prev = h
	}
	for _, d := range owed {
		if d.it.daH < log2[0] {
			out.tags = append(tags, d.why)
			out.fail = &world.Fail{Clause: "no-skip", Msg: fmt.Sprintf("after the restart the scan resumed at DA height %d and never examined height %d, which holds the genuine item %s that sync never got (configured start %d; first life: %v)", log2[0], d.it.daH, d.it, start, hist)}
			return
		}
	}
	if cur := n2.M.VerifDAHeight(); cur != tip+1 {
		return failf("not-stalled", "second life: after %d retrieve signals the DA cursor is %d, expected %d (tip+1); examined %v", nHeights+2, cur, tip+1, log2)
	}
	for _, d := range owed {
		if emitted2[d.it.hash] == 0 {
			kind := map[bool]string{true: "header", false: "data"}[d.it.header]
			out.tags = append(tags, d.why)
			out.fail = &world.Fail{Clause: "genuine-blob-handed-to-sync", Msg: fmt.Sprintf("after a clean restart the scan examined DA height %d again and moved past it without handing the genuine %s of block %d to sync; sync never got it: the first life had %s, block %d is not applied (chain height %d). layout %v, first life: %v; second life examined %v and handed over %d events", d.it.daH, kind, pc.Initial+uint64(d.it.idx), map[string]string{"scanned-but-not-taken-by-sync-before-restart": "put its event on the sync loop's input channel, where it was lost with the process", "not-scanned-before-restart": "not reached that DA height"}[d.why], pc.Initial+uint64(d.it.idx), applied, layout, hist, log2, len(qH)+len(qD))}
			return
		}
		if d.why == "not-scanned-before-restart" {
			st.neverScanned.Add(1)
		} else {
			st.rehanded.Add(1)
		}
	}
	for {
		k := st.maxLost.Load()
		if int64(len(lost)) <= k || st.maxLost.CompareAndSwap(k, int64(len(lost))) {
			break
		}
	}
	out.sig = fmt.Sprintf("part6: start=%d %v %s | %s | rescan %v events=%d", start, layout, order, strings.Join(hist, " "), log2, len(qH)+len(qD))
	return
}

type p6result struct {
	runs, points int64
	caps         []string
	bounds       map[string]any
}

func runRestart(t *testing.T, r *vf.Run, pc *world.ProducerChain, nHeights int, deadline time.Duration) (res p6result) {
	var st r6stats
	sampled := atomic.Int64{}
	// configurations (start height x block order): quick = at most one deviation from (start 0, ascending), i.e. 4 of
	// the 6; thorough = all 6. Layouts, schedules and stop points are never bounded.
	budgets := vf.Pick(r, map[string]int{"config": 1}, map[string]int{})
	ex := explore.Explore(explore.Config{Budgets: budgets, Deadline: deadline}, func(c *explore.Ctx) {
		o := restartBody(t, c, pc, nHeights, &st)
		if o.engine != "" {
			r.EngineError("part 6: " + o.engine)
			return
		}
		if o.fail != nil {
			r.Report(vf.Violation{Clause: o.fail.Clause, Tags: o.tags, Msg: fmt.Sprintf("%s\n %v", o.fail.Msg, o.trace), Cost: c.Cost(), History: map[string]any{"Restart": true, "Choices": c.Choices()}})
			r.Outcome("part6:fail:" + o.fail.Clause)
			return
		}
		r.Outcome(o.sig)
		if strings.Contains(o.sig, "STOP") && c.Cost() >= 5 && sampled.Add(1) <= 6 {
			r.Sample(map[string]any{"part6": o.sig})
		}
	})
	for _, m := range ex.Nondet {
		r.EngineError("nondeterminism (part 6): " + m)
	}
	if ex.Capped != "" {
		res.caps = append(res.caps, "part 6: "+ex.Capped)
	}
	if st.stops.Load() == 0 && len(res.caps) == 0 {
		r.EngineError("part 6: no execution reached a stop point")
	}
	res.runs, res.points = ex.Executions, ex.Points
	res.bounds = map[string]any{
		"restart_da_heights": nHeights, "restart_content_kinds": r6Names[:], "restart_start_heights": []int{0, 1, 3}, "restart_block_orders": []string{"ascending", "descending"},
		"restart_configurations": vf.Pick(r, "(start 0|1|3, ascending), (start 0, descending)", "all 6 (start height x block order)"),
		"restart_executions":     ex.Executions, "restart_executions_with_a_stop_and_rescan": st.stops.Load(), "restart_executions_without_stop_point": st.noStop.Load(),
		"restart_max_events_lost_at_a_stop": st.maxLost.Load(), "restart_items_handed_over_again_after_restart": st.rehanded.Load(), "restart_items_first_scanned_after_restart": st.neverScanned.Load(),
		"restart_items_exempt_taken_by_sync_before_restart": st.exemptSync.Load(), "restart_items_exempt_block_applied": st.exemptDone.Load(),
	}
	return
}
