package c09

import (
	"fmt"
	"sort"
	"strings"

	"github.com/libp2p/go-libp2p/core/crypto"
	"google.golang.org/protobuf/proto"
	"google.golang.org/protobuf/reflect/protoreflect"

	"github.com/evstack/ev-node/types"
	pb "github.com/evstack/ev-node/types/pb/evnode/v1"

	"verif/harness/world"
)

// Part 4 — structurally valid protobuf with missing parts.
// The genuine header blob (pb.SignedHeader) and the genuine data blob (pb.SignedData) are parsed into their protobuf
// form; the populated fields of the whole message tree (sub-messages, scalar fields, every element of a repeated
// field) are the NODES. Two families are enumerated from the nodes, nothing is hand-picked:
//   deletion:  every set of <= kDel nodes (no node below another one of the set) is removed; a sub-message node is
//              either removed or left present-but-empty;
//   minimal:   every set of <= kKeep leaves (a scalar field, one element of a repeated field, or a sub-message left
//              empty) is kept together with its ancestors, everything else is absent.
// Every variant is re-encoded and exists in three signing modes: as it is (the genuine signature no longer fits),
// re-signed consistently by a foreign key, and re-signed by the proposer's own key (reaches the code after the
// signature check).

type pnode struct {
	path     string
	fd       protoreflect.FieldDescriptor
	idx      int // element index for an element of a repeated field, else -1
	parent   *pnode
	children []*pnode
	isMsg    bool // singular sub-message
	isList   bool // a repeated field as a whole (children = its elements)
}

func (n *pnode) below(o *pnode) bool {
	for p := n.parent; p != nil; p = p.parent {
		if p == o {
			return true
		}
	}
	return false
}

// buildTree lists the populated fields of m in field-number order (deterministic).
func buildTree(m protoreflect.Message, prefix string, parent *pnode, all *[]*pnode) []*pnode {
	var out []*pnode
	fds := m.Descriptor().Fields()
	order := make([]int, fds.Len())
	for i := range order {
		order[i] = i
	}
	sort.Slice(order, func(a, b int) bool { return fds.Get(order[a]).Number() < fds.Get(order[b]).Number() })
	for _, i := range order {
		fd := fds.Get(i)
		if !m.Has(fd) {
			continue
		}
		n := &pnode{path: prefix + string(fd.Name()), fd: fd, idx: -1, parent: parent}
		*all = append(*all, n)
		switch {
		case fd.IsList():
			n.isList = true
			l := m.Get(fd).List()
			for k := 0; k < l.Len(); k++ {
				e := &pnode{path: fmt.Sprintf("%s[%d]", n.path, k), fd: fd, idx: k, parent: n}
				n.children = append(n.children, e)
				*all = append(*all, e)
			}
		case fd.Kind() == protoreflect.MessageKind:
			n.isMsg = true
			n.children = buildTree(m.Get(fd).Message(), n.path+".", n, all)
		}
		out = append(out, n)
	}
	return out
}

// render copies src keeping only the nodes for which keep says yes; a sub-message in emptied is kept without content.
func render(src protoreflect.Message, nodes []*pnode, keep func(*pnode) bool, emptied map[*pnode]bool) protoreflect.Message {
	dst := src.New()
	for _, n := range nodes {
		if !keep(n) {
			continue
		}
		switch {
		case n.isList:
			sl := src.Get(n.fd).List()
			var dl protoreflect.List
			for _, e := range n.children {
				if keep(e) {
					if dl == nil {
						dl = dst.Mutable(n.fd).List()
					}
					dl.Append(sl.Get(e.idx))
				}
			}
		case n.isMsg:
			if emptied[n] {
				dst.Set(n.fd, protoreflect.ValueOfMessage(src.Get(n.fd).Message().New()))
			} else {
				dst.Set(n.fd, protoreflect.ValueOfMessage(render(src.Get(n.fd).Message(), n.children, keep, emptied)))
			}
		default:
			dst.Set(n.fd, src.Get(n.fd))
		}
	}
	return dst
}

// variant is one structured junk blob.
type variant struct {
	blob []byte
	kind string // "signed-header-form" | "signed-data-form"
	desc string // e.g. "delete{data.metadata}" or "only{data.txs[0]}"
	mode string // "stale-signature" | "foreign-signed" | "proposer-signed"
}

func (v variant) String() string { return fmt.Sprintf("%s %s %s", v.kind, v.desc, v.mode) }

// combos calls f with every subset of 0..n-1 of size 1..k (lexicographic).
func combos(n, k int, f func([]int)) {
	var cur []int
	var rec func(from int)
	rec = func(from int) {
		if len(cur) > 0 {
			f(cur)
		}
		if len(cur) == k {
			return
		}
		for i := from; i < n; i++ {
			cur = append(cur, i)
			rec(i + 1)
			cur = cur[:len(cur)-1]
		}
	}
	rec(0)
}

type structOp struct {
	n     *pnode
	empty bool // leave the sub-message present but empty (instead of: remove / keep with content)
}

func (o structOp) String() string {
	if o.empty {
		return o.n.path + "={}"
	}
	return o.n.path
}

// structuredForms enumerates the deletion and minimal families of one genuine message.
func structuredForms(msg proto.Message, kind string, kDel, kKeep int) (out []struct {
	m    proto.Message
	desc string
}, nodes int) {
	src := msg.ProtoReflect()
	var all []*pnode
	top := buildTree(src, "", nil, &all)
	nodes = len(all)
	add := func(m protoreflect.Message, desc string) {
		out = append(out, struct {
			m    proto.Message
			desc string
		}{m.Interface(), desc})
	}
	conflict := func(sel []structOp) bool {
		for i, a := range sel {
			for j, b := range sel {
				if i != j && (a.n == b.n || a.n.below(b.n)) {
					return true
				}
			}
		}
		return false
	}
	names := func(sel []structOp) string {
		var s []string
		for _, o := range sel {
			s = append(s, o.String())
		}
		return strings.Join(s, ",")
	}
	// deletion family
	var delOps []structOp
	for _, n := range all {
		delOps = append(delOps, structOp{n, false})
		if n.isMsg {
			delOps = append(delOps, structOp{n, true})
		}
	}
	combos(len(delOps), kDel, func(ix []int) {
		var sel []structOp
		for _, i := range ix {
			sel = append(sel, delOps[i])
		}
		if conflict(sel) {
			return
		}
		gone, emptied := map[*pnode]bool{}, map[*pnode]bool{}
		for _, o := range sel {
			if o.empty {
				emptied[o.n] = true
			} else {
				gone[o.n] = true
			}
		}
		add(render(src, top, func(n *pnode) bool { return !gone[n] }, emptied), "delete{"+names(sel)+"}")
	})
	// minimal family
	var keepOps []structOp
	for _, n := range all {
		switch {
		case n.isMsg:
			keepOps = append(keepOps, structOp{n, true})
		case n.isList:
		default:
			keepOps = append(keepOps, structOp{n, false})
		}
	}
	combos(len(keepOps), kKeep, func(ix []int) {
		var sel []structOp
		for _, i := range ix {
			sel = append(sel, keepOps[i])
		}
		if conflict(sel) {
			return
		}
		kept, emptied := map[*pnode]bool{}, map[*pnode]bool{}
		for _, o := range sel {
			if o.empty {
				emptied[o.n] = true
			}
			for p := o.n; p != nil; p = p.parent {
				kept[p] = true
			}
		}
		add(render(src, top, func(n *pnode) bool { return kept[n] }, emptied), "only{"+names(sel)+"}")
	})
	return
}

var detMarshal = proto.MarshalOptions{Deterministic: true}

func marshalPub(key *world.FixedSigner) ([]byte, error) { return crypto.MarshalPublicKey(key.Pub()) }

// resign replaces signer and signature of a structured form by a consistent signature of the given key over the
// item exactly as the node will decode it. ok=false: the form does not decode far enough to be signed.
func resignHeader(m *pb.SignedHeader, key *world.FixedSigner, claimProposer bool) (ok bool) {
	defer func() {
		if recover() != nil { // the harness's own use of the decoded form; such a form is covered unsigned
			ok = false
		}
	}()
	if m.Header == nil {
		return false
	}
	if claimProposer && m.Header.ProposerAddress != nil {
		m.Header.ProposerAddress = append([]byte(nil), key.Addr()...)
	}
	var sh types.SignedHeader
	m.Signer, m.Signature = nil, nil
	if err := sh.FromProto(m); err != nil {
		return false
	}
	payload, err := types.DefaultSignaturePayloadProvider(&sh.Header)
	if err != nil {
		return false
	}
	sig, err := key.Sign(payload)
	if err != nil {
		return false
	}
	pk, err := marshalPub(key)
	if err != nil {
		return false
	}
	m.Signature = sig
	m.Signer = &pb.Signer{Address: append([]byte(nil), key.Addr()...), PubKey: pk}
	return true
}

func resignData(m *pb.SignedData, key *world.FixedSigner) (ok bool) {
	defer func() {
		if recover() != nil {
			ok = false
		}
	}()
	if m.Data == nil {
		return false
	}
	m.Signer, m.Signature = nil, nil
	var sd types.SignedData
	if err := sd.FromProto(m); err != nil {
		return false
	}
	payload, err := sd.Data.MarshalBinary()
	if err != nil {
		return false
	}
	sig, err := key.Sign(payload)
	if err != nil {
		return false
	}
	pk, err := marshalPub(key)
	if err != nil {
		return false
	}
	m.Signature = sig
	m.Signer = &pb.Signer{Address: append([]byte(nil), key.Addr()...), PubKey: pk}
	return true
}

// structuredJunk builds the whole part-4 alphabet from the genuine blobs of the given blocks.
func structuredJunk(pc *world.ProducerChain, blocks []int, kDel, kKeep int) (vs []variant, nodeCount map[string]int, err error) {
	proposer := world.NewFixedSigner("proposer")
	foreign := world.NewFixedSigner("c09-foreign")
	nodeCount = map[string]int{}
	seen := map[string]bool{}
	for i := 0; i < pc.Len(); i++ {
		seen[string(pc.HdrBlobs[i])] = true
		if pc.DatBlobs[i] != nil {
			seen[string(pc.DatBlobs[i])] = true
		}
	}
	seen[""] = true // the empty blob is in the fixed list already
	push := func(m proto.Message, kind, desc, mode string) error {
		bz, e := detMarshal.Marshal(m)
		if e != nil {
			return e
		}
		if !seen[string(bz)] {
			seen[string(bz)] = true
			vs = append(vs, variant{bz, kind, desc, mode})
		}
		return nil
	}
	for _, b := range blocks {
		var hp pb.SignedHeader
		if e := proto.Unmarshal(pc.HdrBlobs[b], &hp); e != nil {
			return nil, nil, e
		}
		forms, n := structuredForms(&hp, "signed-header-form", kDel, kKeep)
		nodeCount[fmt.Sprintf("header-of-block-%d", b)] = n
		for _, f := range forms {
			if e := push(f.m, "signed-header-form", f.desc, "stale-signature"); e != nil {
				return nil, nil, e
			}
			fm := proto.Clone(f.m).(*pb.SignedHeader)
			if resignHeader(fm, foreign, true) {
				if e := push(fm, "signed-header-form", f.desc, "foreign-signed"); e != nil {
					return nil, nil, e
				}
			}
			pm := proto.Clone(f.m).(*pb.SignedHeader)
			if resignHeader(pm, proposer, false) {
				if e := push(pm, "signed-header-form", f.desc, "proposer-signed"); e != nil {
					return nil, nil, e
				}
			}
		}
		if pc.DatBlobs[b] == nil {
			continue
		}
		var dp pb.SignedData
		if e := proto.Unmarshal(pc.DatBlobs[b], &dp); e != nil {
			return nil, nil, e
		}
		forms, n = structuredForms(&dp, "signed-data-form", kDel, kKeep)
		nodeCount[fmt.Sprintf("data-of-block-%d", b)] = n
		for _, f := range forms {
			if e := push(f.m, "signed-data-form", f.desc, "stale-signature"); e != nil {
				return nil, nil, e
			}
			fm := proto.Clone(f.m).(*pb.SignedData)
			if resignData(fm, foreign) {
				if e := push(fm, "signed-data-form", f.desc, "foreign-signed"); e != nil {
					return nil, nil, e
				}
			}
			pm := proto.Clone(f.m).(*pb.SignedData)
			if resignData(pm, proposer) {
				if e := push(pm, "signed-data-form", f.desc, "proposer-signed"); e != nil {
					return nil, nil, e
				}
			}
		}
	}
	return
}

// features computes the history features (tags) of a structured junk blob from its bytes alone.
func features(v variant) []string {
	tags := []string{"structured-junk", v.kind, v.mode}
	var dp pb.SignedData
	if proto.Unmarshal(v.blob, &dp) == nil {
		txs := dp.Data != nil && len(dp.Data.Txs) > 0
		switch {
		case dp.Data == nil:
			tags = append(tags, "no-first-sub-message")
		case txs && dp.Data.Metadata == nil:
			tags = append(tags, "txs-without-metadata")
		}
		if dp.Signer == nil {
			tags = append(tags, "no-signer")
		}
		if v.kind == "signed-data-form" && v.mode == "proposer-signed" && txs && dp.Data.Metadata == nil {
			tags = append(tags, "proposer-signed-data-without-metadata")
		}
	}
	return tags
}
