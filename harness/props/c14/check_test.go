package c14

import (
	"bytes"
	"context"
	"fmt"
	"sort"
	"strings"
	"testing"
	"time"

	"github.com/evstack/ev-node/pkg/store"
	"github.com/evstack/ev-node/types"

	"verif/harness/explore"
	"verif/harness/vf"
	"verif/harness/world"
)

// C14 — the block store behaves like a height-indexed map, atomically and durably.
// Explicit-state BFS over operation histories on the real DefaultStore over the logging datastore double.

var signer = world.NewFixedSigner("c14")

type blk struct {
	h   *types.SignedHeader
	d   *types.Data
	sig types.Signature
}

// variant 0: block A_h; variant 1: same header (same hash), other signature and data metadata; variant 2: other header.
func mkBlock(height uint64, variant int) blk {
	txs := types.Txs{types.Tx(fmt.Sprintf("tx-%d", height))}
	tm := uint64(1000 + height)
	if variant == 2 {
		txs = types.Txs{types.Tx(fmt.Sprintf("other-%d", height)), types.Tx("x")}
		tm += 500
	}
	d := &types.Data{Txs: txs, Metadata: &types.Metadata{ChainID: "c14", Height: height, Time: tm}}
	hd := types.Header{
		BaseHeader:      types.BaseHeader{Height: height, Time: tm, ChainID: "c14"},
		DataHash:        d.DACommitment(),
		ProposerAddress: signer.Addr(),
		AppHash:         []byte{byte(height)},
	}
	sig := types.Signature(fmt.Sprintf("sig-%d-%d", height, variant))
	sh := &types.SignedHeader{Header: hd, Signature: sig, Signer: types.Signer{PubKey: signer.Pub(), Address: signer.Addr()}}
	if variant == 1 {
		d.Metadata.LastDataHash = []byte{9, 9}
	}
	return blk{sh, d, sig}
}

type action struct {
	kind string // save, crashsave, height, state, meta, reopen
	h    uint64
	v    int
	k    int
	key  string
	val  []byte
}

func (a action) String() string {
	switch a.kind {
	case "save":
		return fmt.Sprintf("save(h=%d,v=%d)", a.h, a.v)
	case "crashsave":
		return fmt.Sprintf("save(h=%d,v=%d)+crash-before-write-%d", a.h, a.v, a.k)
	case "height":
		return fmt.Sprintf("setHeight(%d)", a.h)
	case "state":
		return fmt.Sprintf("updateState(%d)", a.v)
	case "meta":
		return fmt.Sprintf("setMeta(%s,%x)", a.key, a.val)
	case "crashmeta":
		return fmt.Sprintf("setMeta(%s,%x)+crash", a.key, a.val)
	case "crashstate":
		return fmt.Sprintf("updateState(%d)+crash", a.v)
	}
	return a.kind
}

func alphabet(maxH uint64, metaKeys []string) []action {
	var as []action
	for h := uint64(1); h <= maxH; h++ {
		for v := 0; v < 3; v++ {
			as = append(as, action{kind: "save", h: h, v: v})
		}
	}
	for h := uint64(0); h <= maxH; h++ {
		as = append(as, action{kind: "height", h: h})
	}
	for v := 1; v <= 2; v++ {
		as = append(as, action{kind: "state", v: v})
	}
	for _, k := range metaKeys {
		for v := 1; v <= 2; v++ {
			as = append(as, action{kind: "meta", key: k, val: []byte{byte(v), 0, 0, 0, 0, 0, 0, 0}})
		}
	}
	as = append(as, action{kind: "reopen"})
	for h := uint64(1); h <= maxH; h++ {
		for v := 0; v < 3; v += 2 {
			for k := 0; k < 4; k++ {
				as = append(as, action{kind: "crashsave", h: h, v: v, k: k})
			}
		}
	}
	as = append(as, action{kind: "crashmeta", key: metaKeys[0], val: []byte{7, 0, 0, 0, 0, 0, 0, 0}})
	as = append(as, action{kind: "crashstate", v: 2})
	return as
}

func mkState(v int) types.State {
	return types.State{ChainID: "c14", InitialHeight: 1, LastBlockHeight: uint64(v), LastBlockTime: time.Unix(0, int64(1000+v)).UTC(), AppHash: []byte{byte(v)}, DAHeight: uint64(10 * v)}
}

// model is the boring reference: plain maps.
type model struct {
	blocks map[uint64]blk
	byHash map[string]uint64
	height uint64
	state  *types.State
	meta   map[string][]byte
}

func newModel() *model {
	return &model{blocks: map[uint64]blk{}, byHash: map[string]uint64{}, meta: map[string][]byte{}}
}

func (m *model) clone() *model {
	n := newModel()
	for k, v := range m.blocks {
		n.blocks[k] = v
	}
	for k, v := range m.byHash {
		n.byHash[k] = v
	}
	for k, v := range m.meta {
		n.meta[k] = v
	}
	n.height = m.height
	n.state = m.state
	return n
}

func (m *model) apply(a action) {
	switch a.kind {
	case "save", "crashsave":
		b := mkBlock(a.h, a.v)
		m.blocks[a.h] = b
		m.byHash[string(b.h.Hash())] = a.h
	case "height":
		if a.h > m.height {
			m.height = a.h
		}
	case "state", "crashstate":
		s := mkState(a.v)
		m.state = &s
	case "meta", "crashmeta":
		m.meta[a.key] = a.val
	}
}

// observe reads everything through the public interface and renders it canonically.
func observe(ctx context.Context, s store.Store, maxH uint64, metaKeys []string) string {
	var sb strings.Builder
	h, err := s.Height(ctx)
	fmt.Fprintf(&sb, "height=%d,%v|", h, err != nil)
	for i := uint64(1); i <= maxH; i++ {
		hd, d, err := s.GetBlockData(ctx, i)
		if err != nil {
			fmt.Fprintf(&sb, "b%d=none|", i)
		} else {
			db, _ := d.MarshalBinary()
			fmt.Fprintf(&sb, "b%d=%x/%x/%x|", i, hd.Hash(), db, hd.Signature)
		}
		hh, err := s.GetHeader(ctx, i)
		if err != nil {
			fmt.Fprintf(&sb, "h%d=none|", i)
		} else {
			fmt.Fprintf(&sb, "h%d=%x|", i, hh.Hash())
		}
		sg, err := s.GetSignature(ctx, i)
		if err != nil {
			fmt.Fprintf(&sb, "s%d=none|", i)
		} else {
			fmt.Fprintf(&sb, "s%d=%x|", i, []byte(*sg))
		}
	}
	st, err := s.GetState(ctx)
	if err != nil {
		sb.WriteString("state=none|")
	} else {
		fmt.Fprintf(&sb, "state=%d/%d/%x/%d|", st.LastBlockHeight, st.LastBlockTime.UnixNano(), st.AppHash, st.DAHeight)
	}
	for _, k := range metaKeys {
		v, err := s.GetMetadata(ctx, k)
		if err != nil {
			fmt.Fprintf(&sb, "m[%s]=none|", k)
		} else {
			fmt.Fprintf(&sb, "m[%s]=%x|", k, v)
		}
	}
	return sb.String()
}

func (m *model) expect(maxH uint64, metaKeys []string) string {
	var sb strings.Builder
	fmt.Fprintf(&sb, "height=%d,false|", m.height)
	for i := uint64(1); i <= maxH; i++ {
		b, ok := m.blocks[i]
		if !ok {
			fmt.Fprintf(&sb, "b%d=none|h%d=none|s%d=none|", i, i, i)
			continue
		}
		db, _ := b.d.MarshalBinary()
		// the header is stored with its own Signature field; the separate signature record is the argument
		fmt.Fprintf(&sb, "b%d=%x/%x/%x|h%d=%x|s%d=%x|", i, b.h.Hash(), db, b.h.Signature, i, b.h.Hash(), i, []byte(b.sig))
	}
	if m.state == nil {
		sb.WriteString("state=none|")
	} else {
		st := m.state
		fmt.Fprintf(&sb, "state=%d/%d/%x/%d|", st.LastBlockHeight, st.LastBlockTime.UnixNano(), st.AppHash, st.DAHeight)
	}
	for _, k := range metaKeys {
		v, ok := m.meta[k]
		if !ok {
			fmt.Fprintf(&sb, "m[%s]=none|", k)
		} else {
			fmt.Fprintf(&sb, "m[%s]=%x|", k, v)
		}
	}
	return sb.String()
}

// byHashCheck: for the latest block at each height, lookups by its hash return it (superseded hashes unspecified).
func byHashCheck(ctx context.Context, s store.Store, m *model) string {
	hs := make([]uint64, 0, len(m.blocks))
	for h := range m.blocks {
		hs = append(hs, h)
	}
	sort.Slice(hs, func(i, j int) bool { return hs[i] < hs[j] })
	for _, h := range hs {
		b := m.blocks[h]
		if m.byHash[string(b.h.Hash())] != h {
			continue // the same hash was later written at another height: unspecified
		}
		hd, d, err := s.GetBlockByHash(ctx, b.h.Hash())
		if err != nil {
			return fmt.Sprintf("GetBlockByHash(block at %d): %v", h, err)
		}
		db, _ := d.MarshalBinary()
		wb, _ := b.d.MarshalBinary()
		if !bytes.Equal(hd.Hash(), b.h.Hash()) || !bytes.Equal(db, wb) {
			return fmt.Sprintf("GetBlockByHash(block at %d) returned a different block", h)
		}
		sg, err := s.GetSignatureByHash(ctx, b.h.Hash())
		if err != nil || !bytes.Equal(*sg, b.sig) {
			return fmt.Sprintf("GetSignatureByHash(block at %d) = %v, %v", h, sg, err)
		}
	}
	return ""
}

type result struct {
	key     string
	prune   bool
	clause  string
	msg     string
	trace   []string
	nWrites int
}

func runHistory(acts []action, hist []int, maxH uint64, metaKeys []string) result {
	ctx := context.Background()
	kv := world.NewKV(nil)
	s := store.New(kv)
	m := newModel()
	var trace []string
	memState := ""
	for step, ai := range hist {
		a := acts[ai]
		trace = append(trace, a.String())
		last := step == len(hist)-1
		old := m.clone()
		crashed := false
		switch a.kind {
		case "save":
			b := mkBlock(a.h, a.v)
			if err := s.SaveBlockData(ctx, b.h, b.d, &b.sig); err != nil {
				return result{clause: "op-error", msg: err.Error(), trace: trace}
			}
			m.apply(a)
		case "height":
			if err := s.SetHeight(ctx, a.h); err != nil {
				return result{clause: "op-error", msg: err.Error(), trace: trace}
			}
			m.apply(a)
		case "state":
			if err := s.UpdateState(ctx, mkState(a.v)); err != nil {
				return result{clause: "op-error", msg: err.Error(), trace: trace}
			}
			m.apply(a)
		case "meta":
			if err := s.SetMetadata(ctx, a.key, a.val); err != nil {
				return result{clause: "op-error", msg: err.Error(), trace: trace}
			}
			m.apply(a)
		case "reopen":
			kv = world.NewKV(kv.Image())
			s = store.New(kv)
		case "crashsave", "crashmeta", "crashstate":
			base := kv.NumWrites()
			fired := false
			kv.OnWrite = func(idx int, w world.Write) bool {
				if idx-base == a.k {
					fired = true
					return true
				}
				return false
			}
			done := make(chan struct{})
			go func() {
				defer close(done)
				switch a.kind {
				case "crashsave":
					b := mkBlock(a.h, a.v)
					_ = s.SaveBlockData(ctx, b.h, b.d, &b.sig)
				case "crashmeta":
					_ = s.SetMetadata(ctx, a.key, a.val)
				case "crashstate":
					_ = s.UpdateState(ctx, mkState(a.v))
				}
			}()
			<-done
			if !fired {
				// the operation has fewer writes than k+1: identical to the plain operation, explored elsewhere
				return result{prune: true}
			}
			crashed = true
			kv = world.NewKV(kv.Image())
			s = store.New(kv)
		}
		if !last {
			if crashed {
				// after a crash the op is either fully applied or not at all; settle the model on what is observed
				got := observe(ctx, s, maxH, metaKeys)
				nm := old.clone()
				nm.apply(a)
				if got == nm.expect(maxH, metaKeys) {
					m = nm
				} else {
					m = old
				}
			}
			continue
		}
		// the in-memory part of the state key is taken BEFORE the getters run (a getter may refresh cached state)
		memState = store.VerifMemState(s)
		got := observe(ctx, s, maxH, metaKeys)
		if crashed {
			nm := old.clone()
			nm.apply(a)
			switch got {
			case old.expect(maxH, metaKeys):
				m = old
			case nm.expect(maxH, metaKeys):
				m = nm
			default:
				return result{clause: "crash-atomicity", msg: fmt.Sprintf("after a crash inside %s the store shows neither the old nor the new contents:\n got  %s\n old  %s\n new  %s", a, got, old.expect(maxH, metaKeys), nm.expect(maxH, metaKeys)), trace: trace}
			}
		} else if want := m.expect(maxH, metaKeys); got != want {
			cl := "read-your-writes"
			if a.kind == "reopen" {
				cl = "durability"
			}
			return result{clause: cl, msg: fmt.Sprintf("after %s:\n got  %s\n want %s", a, got, want), trace: trace}
		}
		if msg := byHashCheck(ctx, s, m); msg != "" {
			return result{clause: "by-hash", msg: msg, trace: trace}
		}
	}
	// the state key is the durable image plus whatever the store object keeps in memory (nothing, today)
	return result{key: "img:" + kv.Canon() + "|mem:" + memState, trace: trace, nWrites: kv.NumWrites()}
}

func TestCheck(t *testing.T) {
	r := vf.Start("C14", "model_checking")
	maxH := vf.Pick(r, uint64(2), uint64(3))
	metaKeys := vf.Pick(r, []string{"d", "last-submitted-header-height", "rhb/1/h"},
		[]string{"d", "l", "last-submitted-header-height", "last-submitted-data-height", "rhb/1/h", "rhb/1/d"})
	depth := vf.Pick(r, 5, 6)
	acts := alphabet(maxH, metaKeys)
	r.Assume = []string{
		"datastore contract: a single Put/Delete and one Batch.Commit are atomic and durable (go-datastore/badger), modelled by the logging KV double",
		"by-hash reads of a superseded header are unspecified",
		"metadata keys are the shapes the node uses (d, l, last-submitted-*, rhb/<h>/{h,d})",
	}
	if r.ReplayPath() != "" {
		var hist []int
		if _, err := r.LoadReplay(&hist); err != nil {
			r.EngineError(err.Error())
		} else if res := runHistory(acts, hist, maxH, metaKeys); res.clause != "" {
			r.Report(vf.Violation{Clause: res.clause, Msg: res.msg, History: hist})
		}
		r.Finish(vf.Coverage{Evaluations: 1, DistinctNontrivial: 1})
		return
	}
	st := explore.BFS(explore.BFSConfig{Depth: depth, Actions: len(acts), Deadline: vf.Pick(r, 90*time.Second, 20*time.Minute)}, func(hist []int) explore.Step {
		res := runHistory(acts, hist, maxH, metaKeys)
		if res.prune {
			return explore.Step{Prune: true}
		}
		if res.clause != "" {
			r.Report(vf.Violation{Clause: res.clause, Msg: res.msg + "\n history: " + strings.Join(res.trace, " ; "), Cost: len(hist), History: hist})
			return explore.Step{Prune: true}
		}
		if len(hist) == 3 || len(hist) == depth {
			r.Sample(strings.Join(res.trace, " ; "))
		}
		r.Outcome(res.key)
		return explore.Step{Key: res.key}
	})
	var caps []string
	if st.Capped != "" {
		caps = append(caps, st.Capped)
	}
	r.Finish(vf.Coverage{
		Evaluations: st.Transitions, DistinctNontrivial: st.States, States: st.States, Transitions: st.Transitions,
		Rule:       "every operation history up to the depth bound over the alphabet (save block h×{same,same-hash-other-signature,other-hash}, set height, update state, set metadata, reopen, crash before the k-th durable write of a save/metadata/state write then reopen), executed on a fresh real DefaultStore; histories are merged when the durable key/value image and the in-memory fields of the store object (reflection hook; none today) are identical; distinct = distinct images",
		Exhaustive: st.DepthDone == depth, Caps: caps,
		Bounds:     map[string]any{"depth": st.DepthDone, "heights": maxH, "alphabet": len(acts), "metadata_keys": metaKeys, "states_per_level": st.PerLevel},
	})
}
