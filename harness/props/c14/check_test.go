package c14

import (
	"bytes"
	"context"
	"crypto/sha256"
	"encoding/hex"
	"fmt"
	"os"
	"sort"
	"strings"
	"sync"
	"testing"
	"time"

	ds "github.com/ipfs/go-datastore"

	"github.com/evstack/ev-node/pkg/store"
	"github.com/evstack/ev-node/types"

	"verif/harness/explore"
	"verif/harness/vf"
	"verif/harness/world"
)

// C14 — the block store behaves like a height-indexed map, atomically and durably.
// Explicit-state BFS over operation histories on the real DefaultStore over the logging datastore double.
// Two searches share runHistory and the map model: "base" (three fixed block variants per height whose signature
// argument always equals header.Signature, plus height/state/metadata writes and crashes) and "relations" (saves and
// resaves whose arguments are spelled out as shapes, so that every relation between header.Signature, the signature
// argument, header.DataHash and the data — equal, different, empty — occurs in every order on one height and across two).
// A third search, "values", is about the VALUE written by the single-record writes: metadata values {X, Y, empty slice,
// nil} on all the node's key shapes, states {all fields zero, full, full, genesis-like}, height 0 and 1, blocks at
// height 0 and 1 that are full or made of empty parts only; "values-badger" replays the crash-free part of that
// alphabet on the real on-disk badger datastore (fidelity of the double for empty values, close + reopen).
// The "heights" part (heights_test.go) is about the NUMERIC VALUE of the height: one store, a distinct block, the
// recorded height and the node's per-height metadata records at every height of a large set (dense range, powers of
// two and ten ±1, every 8-byte rendering made of path-syntax bytes, adjacent special bytes), read back against the map model.

var signer = world.NewFixedSigner("c14")

type blk struct {
	h   *types.SignedHeader
	d   *types.Data
	sig types.Signature
}

// variant 0: block A_h; variant 1: same header (same hash), other signature and data metadata; variant 2: other header.
func mkBlock(height uint64, variant int) blk {
	txs := types.Txs{types.Tx(fmt.Sprintf("tx-%d", height))}
	tm := uint64(1000 + height)
	if variant == 2 {
		txs = types.Txs{types.Tx(fmt.Sprintf("other-%d", height)), types.Tx("x")}
		tm += 500
	}
	d := &types.Data{Txs: txs, Metadata: &types.Metadata{ChainID: "c14", Height: height, Time: tm}}
	hd := types.Header{
		BaseHeader:      types.BaseHeader{Height: height, Time: tm, ChainID: "c14"},
		DataHash:        d.DACommitment(),
		ProposerAddress: signer.Addr(),
		AppHash:         []byte{byte(height)},
	}
	sig := types.Signature(fmt.Sprintf("sig-%d-%d", height, variant))
	sh := &types.SignedHeader{Header: hd, Signature: sig, Signer: types.Signer{PubKey: signer.Pub(), Address: signer.Addr()}}
	if variant == 1 {
		d.Metadata.LastDataHash = []byte{9, 9}
	}
	return blk{sh, d, sig}
}

// shape spells out the ARGUMENTS of one SaveBlockData call, so that every relation between them is enumerated:
//
//	hv header: 0 = A (DataHash = commitment of tx list T_A), 1 = B (DataHash = commitment of T_B, other time),
//	           2 = E (DataHash = the commitment of "no transactions", what the producer puts into an empty block)
//	hs header.Signature: index into sigPool (0 = empty)
//	sa the signature ARGUMENT: index into sigPool (0 = empty) — equal to / different from / empty vs header.Signature
//	dv data: 0 = T_A without metadata (the producer's early save), 1 = T_A with metadata, 2 = T_B with metadata,
//	         3 = no transactions and no metadata (marshals to an empty value), 4 = no transactions, with metadata
//
// Transaction lists and signatures are the same at every height, so equal records also occur across heights.
type shape struct{ hv, hs, sa, dv int }

var sigPool = []types.Signature{nil, types.Signature("signature-P"), types.Signature("signature-Q")}

const (
	nHdr  = 3
	nData = 5
)

var emptyDataHash = (&types.Data{}).DACommitment()

func shapeTxs(which int) types.Txs {
	switch which {
	case 0:
		return types.Txs{types.Tx("tx-a")}
	case 1:
		return types.Txs{types.Tx("tx-b"), types.Tx("x")}
	}
	return make(types.Txs, 0)
}

// dataMatches: the data argument is the one header.DataHash commits to.
func (sh shape) dataMatches() bool {
	switch sh.hv {
	case 0:
		return sh.dv == 0 || sh.dv == 1
	case 1:
		return sh.dv == 2
	}
	return sh.dv == 3 || sh.dv == 4
}

func (sh shape) String() string {
	return fmt.Sprintf("hdr=%c,hdr.sig=%s,sigarg=%s,data=%s", "ABE"[sh.hv], []string{"none", "P", "Q"}[sh.hs], []string{"none", "P", "Q"}[sh.sa],
		[]string{"Ta-nometa", "Ta", "Tb", "empty-nometa", "empty"}[sh.dv])
}

func mkShaped(height uint64, sh shape) blk {
	tm := uint64(1000 + height)
	var dataHash types.Hash
	switch sh.hv {
	case 0:
		dataHash = (&types.Data{Txs: shapeTxs(0)}).DACommitment()
	case 1:
		dataHash = (&types.Data{Txs: shapeTxs(1)}).DACommitment()
		tm += 500
	default:
		dataHash = append(types.Hash(nil), emptyDataHash...)
	}
	hd := types.Header{
		BaseHeader:      types.BaseHeader{Height: height, Time: tm, ChainID: "c14"},
		DataHash:        dataHash,
		ProposerAddress: signer.Addr(),
		AppHash:         []byte{byte(height)},
	}
	d := &types.Data{}
	switch sh.dv {
	case 0, 1:
		d.Txs = shapeTxs(0)
	case 2:
		d.Txs = shapeTxs(1)
	default:
		d.Txs = shapeTxs(2)
	}
	if sh.dv == 1 || sh.dv == 2 || sh.dv == 4 {
		d.Metadata = &types.Metadata{ChainID: "c14", Height: height, Time: tm, LastDataHash: []byte{7, byte(sh.dv)}}
	}
	hsig := append(types.Signature(nil), sigPool[sh.hs]...)
	arg := append(types.Signature(nil), sigPool[sh.sa]...)
	return blk{&types.SignedHeader{Header: hd, Signature: hsig, Signer: types.Signer{PubKey: signer.Pub(), Address: signer.Addr()}}, d, arg}
}

type action struct {
	kind string // save, crashsave, height, state, meta, reopen
	h    uint64
	v    int
	k    int
	key  string
	val  []byte
	sh   *shape // save / crashsave with spelled-out arguments (relations search); nil = one of the three fixed variants
}

func (a action) block() blk {
	if a.sh != nil {
		return mkShaped(a.h, *a.sh)
	}
	return mkBlock(a.h, a.v)
}

func (a action) String() string {
	switch a.kind {
	case "save":
		if a.sh != nil {
			return fmt.Sprintf("save(h=%d,%s)", a.h, *a.sh)
		}
		return fmt.Sprintf("save(h=%d,v=%d)", a.h, a.v)
	case "crashsave":
		if a.sh != nil {
			return fmt.Sprintf("save(h=%d,%s)+crash-before-write-%d", a.h, *a.sh, a.k)
		}
		return fmt.Sprintf("save(h=%d,v=%d)+crash-before-write-%d", a.h, a.v, a.k)
	case "height":
		return fmt.Sprintf("setHeight(%d)", a.h)
	case "state":
		return fmt.Sprintf("updateState(%d)", a.v)
	case "meta":
		return fmt.Sprintf("setMeta(%s,%s)", a.key, valName(a.val))
	case "crashmeta":
		return fmt.Sprintf("setMeta(%s,%s)+crash", a.key, valName(a.val))
	case "crashstate":
		return fmt.Sprintf("updateState(%d)+crash", a.v)
	}
	return a.kind
}

// metaVals is the value dimension of a metadata write: two non-empty values (8 bytes, like the node's height
// watermarks), the empty slice (what the block manager persists under LastBatchDataKey for an empty batch list) and nil.
func metaVals() [][]byte {
	return [][]byte{{1, 0, 0, 0, 0, 0, 0, 0}, {2, 0, 0, 0, 0, 0, 0, 0}, {}, nil}
}

func valName(v []byte) string {
	switch {
	case v == nil:
		return "nil"
	case len(v) == 0:
		return "empty"
	}
	return fmt.Sprintf("%x", v)
}

func alphabet(maxH uint64, metaKeys []string) []action {
	var as []action
	for h := uint64(1); h <= maxH; h++ {
		for v := 0; v < 3; v++ {
			as = append(as, action{kind: "save", h: h, v: v})
		}
	}
	for h := uint64(0); h <= maxH; h++ {
		as = append(as, action{kind: "height", h: h})
	}
	for v := 1; v <= 2; v++ {
		as = append(as, action{kind: "state", v: v})
	}
	for _, k := range metaKeys {
		for _, v := range metaVals() {
			as = append(as, action{kind: "meta", key: k, val: v})
		}
	}
	as = append(as, action{kind: "reopen"})
	for h := uint64(1); h <= maxH; h++ {
		for v := 0; v < 3; v += 2 {
			for k := 0; k < 4; k++ {
				as = append(as, action{kind: "crashsave", h: h, v: v, k: k})
			}
		}
	}
	as = append(as, action{kind: "crashmeta", key: metaKeys[0], val: []byte{7, 0, 0, 0, 0, 0, 0, 0}})
	as = append(as, action{kind: "crashmeta", key: metaKeys[0], val: []byte{}})
	as = append(as, action{kind: "crashstate", v: 2})
	return as
}

// the two block shapes of the values search: everything set, and every part that can be empty is empty
var (
	shapeFull  = shape{0, 1, 1, 1} // header A, header.Signature = argument = P, txs A with metadata
	shapeEmpty = shape{2, 0, 0, 3} // no-transactions header, no signatures, data that marshals to the empty value
)

// valuesAlphabet: the single-record writes with their VALUE spelled out — metadata on every key in metaKeys ×
// {X, Y, empty slice, nil}; state ∈ {all fields zero, full 1, full 2, genesis-like (only chain id and initial height)};
// set height 0 and 1; blocks at height 0 and 1 in the full and the all-empty shape; reopen; and (crash = true) a crash
// before the durable write of: each of the four values under crashKey, the zero and the genesis-like state, the two
// block shapes at height 0 (k < 2).
func valuesAlphabet(metaKeys []string, crashKey string, crash bool) []action {
	var as []action
	for _, k := range metaKeys {
		for _, v := range metaVals() {
			as = append(as, action{kind: "meta", key: k, val: v})
		}
	}
	for v := 0; v <= 3; v++ {
		as = append(as, action{kind: "state", v: v})
	}
	for h := uint64(0); h <= 1; h++ {
		as = append(as, action{kind: "height", h: h})
	}
	for h := uint64(0); h <= 1; h++ {
		for _, sh := range []shape{shapeFull, shapeEmpty} {
			sh := sh
			as = append(as, action{kind: "save", h: h, sh: &sh})
		}
	}
	as = append(as, action{kind: "reopen"})
	if !crash {
		return as
	}
	for _, v := range metaVals() {
		as = append(as, action{kind: "crashmeta", key: crashKey, val: v})
	}
	as = append(as, action{kind: "crashstate", v: 0}, action{kind: "crashstate", v: 3})
	for _, sh := range []shape{shapeFull, shapeEmpty} {
		for k := 0; k < 2; k++ {
			sh := sh
			as = append(as, action{kind: "crashsave", h: 0, sh: &sh, k: k})
		}
	}
	return as
}

func allShapes() []shape {
	var out []shape
	for hv := 0; hv < nHdr; hv++ {
		for dv := 0; dv < nData; dv++ {
			for hs := range sigPool {
				for sa := range sigPool {
					out = append(out, shape{hv, hs, sa, dv})
				}
			}
		}
	}
	return out
}

// axisShapes: the full signature relation (header.Signature × argument) on one non-empty and one empty block whose
// data matches the header.
func axisShapes() []shape {
	var out []shape
	for _, hd := range [][2]int{{0, 1}, {2, 3}} {
		for hs := range sigPool {
			for sa := range sigPool {
				out = append(out, shape{hd[0], hs, sa, hd[1]})
			}
		}
	}
	return out
}

// relAlphabet: saves with every argument relation on the heights in full, the signature axis on the heights in axis,
// reopen, and a crash before the k-th durable write (k < 4) of every save (or of the signature-axis saves only) on the
// heights in crash.
func relAlphabet(full, axis, crash []uint64, crashAxisOnly bool) []action {
	var as []action
	shapesAt := map[uint64][]shape{}
	for _, h := range full {
		shapesAt[h] = allShapes()
	}
	for _, h := range axis {
		shapesAt[h] = axisShapes()
	}
	for _, h := range append(append([]uint64(nil), full...), axis...) {
		for _, sh := range shapesAt[h] {
			sh := sh
			as = append(as, action{kind: "save", h: h, sh: &sh})
		}
	}
	as = append(as, action{kind: "reopen"})
	for _, h := range crash {
		shs := shapesAt[h]
		if crashAxisOnly {
			shs = axisShapes()
		}
		for _, sh := range shs {
			for k := 0; k < 4; k++ {
				sh := sh
				as = append(as, action{kind: "crashsave", h: h, sh: &sh, k: k})
			}
		}
	}
	return as
}

// tagsOf: features of a history that a finding could be keyed on.
func tagsOf(name string, acts []action, hist []int) []string {
	set := map[string]bool{"search:" + name: true}
	saves := map[uint64]int{}
	metaLen := map[string]int{} // length of the last value written per metadata key
	for _, ai := range hist {
		a := acts[ai]
		switch a.kind {
		case "reopen":
			set["reopen"] = true
		case "crashsave", "crashmeta", "crashstate":
			set["crash"] = true
		}
		switch a.kind {
		case "meta", "crashmeta":
			prev, written := metaLen[a.key]
			if len(a.val) == 0 {
				set["meta-empty-value-written"] = true
				if a.val == nil {
					set["meta-nil-value-written"] = true
				}
				if !written {
					set["meta-first-write-of-key-is-empty"] = true
				} else if prev > 0 {
					set["meta-empty-overwrites-non-empty"] = true
				}
			} else if written && prev == 0 {
				set["meta-non-empty-overwrites-empty"] = true
			}
			metaLen[a.key] = len(a.val)
		case "state", "crashstate":
			switch a.v {
			case 0:
				set["state-all-fields-zero"] = true
			case 3:
				set["state-genesis-like"] = true
			}
		case "height":
			if a.h == 0 {
				set["set-height-0"] = true
			}
		case "save", "crashsave":
			if a.h == 0 {
				set["block-at-height-0"] = true
			}
		}
		if a.kind != "save" && a.kind != "crashsave" {
			continue
		}
		saves[a.h]++
		if saves[a.h] > 1 {
			set["resave-of-a-height"] = true
		}
		b := a.block()
		switch {
		case len(b.sig) == 0 && len(b.h.Signature) == 0:
			set["sig-arg-and-header-sig-empty"] = true
		case len(b.sig) == 0:
			set["sig-arg-empty"] = true
		case len(b.h.Signature) == 0:
			set["header-sig-empty"] = true
		case bytes.Equal(b.sig, b.h.Signature):
			set["sig-arg-equals-header-sig"] = true
		default:
			set["sig-arg-differs-from-header-sig"] = true
		}
		if len(b.d.Txs) == 0 {
			set["data-without-txs"] = true
		}
		if b.d.Metadata == nil {
			set["data-without-metadata"] = true
		}
		if !bytes.Equal(b.d.DACommitment(), b.h.DataHash) {
			set["data-not-matching-datahash"] = true
		}
	}
	out := make([]string, 0, len(set))
	for k := range set {
		out = append(out, k)
	}
	sort.Strings(out)
	return out
}

// mkState: 1, 2 = two states with every field set; 0 = the zero State; 3 = genesis-like (chain id and initial height
// only: last block height 0, zero time, DA height 0, no hashes, zero version).
func mkState(v int) types.State {
	switch v {
	case 0:
		return types.State{}
	case 3:
		return types.State{ChainID: "c14", InitialHeight: 1}
	}
	return types.State{Version: types.Version{Block: 1, App: uint64(v)}, ChainID: "c14", InitialHeight: 1, LastBlockHeight: uint64(v),
		LastBlockTime: time.Unix(0, int64(1000+v)).UTC(), AppHash: []byte{byte(v)}, DAHeight: uint64(10 * v), LastResultsHash: types.Hash{0xaa, byte(v)}}
}

// every field of a state (nil and empty byte strings are not told apart)
func renderState(st *types.State) string {
	return fmt.Sprintf("state=%d.%d/%s/%d/%d/%d.%d/%x/%d/%x|", st.Version.Block, st.Version.App, st.ChainID, st.InitialHeight, st.LastBlockHeight,
		st.LastBlockTime.Unix(), st.LastBlockTime.Nanosecond(), st.AppHash, st.DAHeight, []byte(st.LastResultsHash))
}

// model is the boring reference: plain maps.
type model struct {
	blocks map[uint64]blk
	byHash map[string]uint64
	height uint64
	state  *types.State
	meta   map[string][]byte
}

func newModel() *model {
	return &model{blocks: map[uint64]blk{}, byHash: map[string]uint64{}, meta: map[string][]byte{}}
}

func (m *model) clone() *model {
	n := newModel()
	for k, v := range m.blocks {
		n.blocks[k] = v
	}
	for k, v := range m.byHash {
		n.byHash[k] = v
	}
	for k, v := range m.meta {
		n.meta[k] = v
	}
	n.height = m.height
	n.state = m.state
	return n
}

func (m *model) apply(a action) {
	switch a.kind {
	case "save", "crashsave":
		b := a.block()
		m.blocks[a.h] = b
		m.byHash[string(b.h.Hash())] = a.h
	case "height":
		if a.h > m.height {
			m.height = a.h
		}
	case "state", "crashstate":
		s := mkState(a.v)
		m.state = &s
	case "meta", "crashmeta":
		m.meta[a.key] = a.val
	}
}

// observe reads everything through the public interface and renders it canonically.
func observe(ctx context.Context, s store.Store, minH, maxH uint64, metaKeys []string) string {
	var sb strings.Builder
	h, err := s.Height(ctx)
	fmt.Fprintf(&sb, "height=%d,%v|", h, err != nil)
	for i := minH; i <= maxH; i++ {
		hd, d, err := s.GetBlockData(ctx, i)
		if err != nil {
			fmt.Fprintf(&sb, "b%d=none|", i)
		} else {
			db, _ := d.MarshalBinary()
			fmt.Fprintf(&sb, "b%d=%x/%x/%x|", i, hd.Hash(), db, hd.Signature)
		}
		hh, err := s.GetHeader(ctx, i)
		if err != nil {
			fmt.Fprintf(&sb, "h%d=none|", i)
		} else {
			// the whole signed header as written (header fields, embedded signature, signer), not only its hash
			hb, _ := hh.MarshalBinary()
			fmt.Fprintf(&sb, "h%d=%x/%x|", i, hh.Hash(), hb)
		}
		sg, err := s.GetSignature(ctx, i)
		if err != nil {
			fmt.Fprintf(&sb, "s%d=none|", i)
		} else {
			fmt.Fprintf(&sb, "s%d=%x|", i, []byte(*sg))
		}
	}
	st, err := s.GetState(ctx)
	if err != nil {
		sb.WriteString("state=none|")
	} else {
		sb.WriteString(renderState(&st))
	}
	for _, k := range metaKeys {
		// a successful read of an empty value renders as "m[k]=|", a failed read as "m[k]=none|"
		v, err := s.GetMetadata(ctx, k)
		if err != nil {
			fmt.Fprintf(&sb, "m[%s]=none|", k)
		} else {
			fmt.Fprintf(&sb, "m[%s]=%x|", k, v)
		}
	}
	return sb.String()
}

func (m *model) expect(minH, maxH uint64, metaKeys []string) string {
	var sb strings.Builder
	fmt.Fprintf(&sb, "height=%d,false|", m.height)
	for i := minH; i <= maxH; i++ {
		b, ok := m.blocks[i]
		if !ok {
			fmt.Fprintf(&sb, "b%d=none|h%d=none|s%d=none|", i, i, i)
			continue
		}
		db, _ := b.d.MarshalBinary()
		hb, _ := b.h.MarshalBinary()
		// the header is stored with its own Signature field; the separate signature record is the argument
		fmt.Fprintf(&sb, "b%d=%x/%x/%x|h%d=%x/%x|s%d=%x|", i, b.h.Hash(), db, b.h.Signature, i, b.h.Hash(), hb, i, []byte(b.sig))
	}
	if m.state == nil {
		sb.WriteString("state=none|")
	} else {
		sb.WriteString(renderState(m.state))
	}
	for _, k := range metaKeys {
		v, ok := m.meta[k]
		if !ok {
			fmt.Fprintf(&sb, "m[%s]=none|", k)
		} else {
			fmt.Fprintf(&sb, "m[%s]=%x|", k, v)
		}
	}
	return sb.String()
}

// byHashCheck: for the latest block at each height, lookups by its hash return it (superseded hashes unspecified).
func byHashCheck(ctx context.Context, s store.Store, m *model) string {
	hs := make([]uint64, 0, len(m.blocks))
	for h := range m.blocks {
		hs = append(hs, h)
	}
	sort.Slice(hs, func(i, j int) bool { return hs[i] < hs[j] })
	for _, h := range hs {
		b := m.blocks[h]
		if m.byHash[string(b.h.Hash())] != h {
			continue // the same hash was later written at another height: unspecified
		}
		hd, d, err := s.GetBlockByHash(ctx, b.h.Hash())
		if err != nil {
			return fmt.Sprintf("GetBlockByHash(block at %d): %v", h, err)
		}
		db, _ := d.MarshalBinary()
		wb, _ := b.d.MarshalBinary()
		if !bytes.Equal(hd.Hash(), b.h.Hash()) || !bytes.Equal(db, wb) || !bytes.Equal(hd.Signature, b.h.Signature) {
			return fmt.Sprintf("GetBlockByHash(block at %d) returned a different block", h)
		}
		sg, err := s.GetSignatureByHash(ctx, b.h.Hash())
		if err != nil || !bytes.Equal(*sg, b.sig) {
			return fmt.Sprintf("GetSignatureByHash(block at %d) = %v, %v", h, sg, err)
		}
	}
	return ""
}

type result struct {
	key     string
	prune   bool
	clause  string
	msg     string
	trace   []string
	nWrites int
}

func runHistory(sp *search, hist []int) (res result) {
	acts, minH, maxH, metaKeys := sp.acts, sp.minH, sp.maxH, sp.metaKeys
	ctx := context.Background()
	var kv *world.KV // the logging double (nil when the history runs on real badger)
	var s store.Store
	var reopen func() error
	if sp.badger {
		dir, err := os.MkdirTemp("", "c14-badger-")
		if err != nil {
			return result{clause: "engine", msg: err.Error()}
		}
		var db ds.Batching
		defer func() {
			if db != nil {
				_ = db.Close()
			}
			_ = os.RemoveAll(dir)
		}()
		reopen = func() error {
			if db != nil {
				if err := s.Close(); err != nil {
					return err
				}
				db = nil
			}
			d, err := store.NewDefaultKVStore(dir, "db", "c14")
			if err != nil {
				return err
			}
			db = d
			s = store.New(db)
			return nil
		}
		if err := reopen(); err != nil {
			return result{clause: "engine", msg: "cannot open badger: " + err.Error()}
		}
	} else {
		kv = world.NewKV(nil)
		s = store.New(kv)
		reopen = func() error {
			kv = world.NewKV(kv.Image())
			s = store.New(kv)
			return nil
		}
	}
	m := newModel()
	var trace []string
	memState := ""
	for step, ai := range hist {
		a := acts[ai]
		trace = append(trace, a.String())
		last := step == len(hist)-1
		old := m.clone()
		crashed := false
		switch a.kind {
		case "save":
			b := a.block()
			if err := s.SaveBlockData(ctx, b.h, b.d, &b.sig); err != nil {
				return result{clause: "op-error", msg: err.Error(), trace: trace}
			}
			m.apply(a)
		case "height":
			if err := s.SetHeight(ctx, a.h); err != nil {
				return result{clause: "op-error", msg: err.Error(), trace: trace}
			}
			m.apply(a)
		case "state":
			if err := s.UpdateState(ctx, mkState(a.v)); err != nil {
				return result{clause: "op-error", msg: err.Error(), trace: trace}
			}
			m.apply(a)
		case "meta":
			if err := s.SetMetadata(ctx, a.key, a.val); err != nil {
				return result{clause: "op-error", msg: err.Error(), trace: trace}
			}
			m.apply(a)
		case "reopen":
			if err := reopen(); err != nil {
				return result{clause: "op-error", msg: "reopen: " + err.Error(), trace: trace}
			}
		case "crashsave", "crashmeta", "crashstate":
			if kv == nil {
				return result{clause: "engine", msg: "crash actions need the logging double", trace: trace}
			}
			base := kv.NumWrites()
			fired := false
			kv.OnWrite = func(idx int, w world.Write) bool {
				if idx-base == a.k {
					fired = true
					return true
				}
				return false
			}
			done := make(chan struct{})
			go func() {
				defer close(done)
				switch a.kind {
				case "crashsave":
					b := a.block()
					_ = s.SaveBlockData(ctx, b.h, b.d, &b.sig)
				case "crashmeta":
					_ = s.SetMetadata(ctx, a.key, a.val)
				case "crashstate":
					_ = s.UpdateState(ctx, mkState(a.v))
				}
			}()
			<-done
			if !fired {
				// the operation has fewer writes than k+1: identical to the plain operation, explored elsewhere
				return result{prune: true}
			}
			crashed = true
			kv = world.NewKV(kv.Image())
			s = store.New(kv)
		}
		if !last {
			if crashed {
				// after a crash the op is either fully applied or not at all; settle the model on what is observed
				got := observe(ctx, s, minH, maxH, metaKeys)
				nm := old.clone()
				nm.apply(a)
				if got == nm.expect(minH, maxH, metaKeys) {
					m = nm
				} else {
					m = old
				}
			}
			continue
		}
		// the in-memory part of the state key is taken BEFORE the getters run (a getter may refresh cached state)
		memState = store.VerifMemState(s)
		got := observe(ctx, s, minH, maxH, metaKeys)
		if crashed {
			nm := old.clone()
			nm.apply(a)
			switch got {
			case old.expect(minH, maxH, metaKeys):
				m = old
			case nm.expect(minH, maxH, metaKeys):
				m = nm
			default:
				return result{clause: "crash-atomicity", msg: fmt.Sprintf("after a crash inside %s the store shows neither the old nor the new contents:\n got  %s\n old  %s\n new  %s", a, got, old.expect(minH, maxH, metaKeys), nm.expect(minH, maxH, metaKeys)), trace: trace}
			}
		} else if want := m.expect(minH, maxH, metaKeys); got != want {
			cl := "read-your-writes"
			if a.kind == "reopen" {
				cl = "durability"
			}
			return result{clause: cl, msg: fmt.Sprintf("after %s:\n got  %s\n want %s", a, got, want), trace: trace}
		}
		if msg := byHashCheck(ctx, s, m); msg != "" {
			return result{clause: "by-hash", msg: msg, trace: trace}
		}
	}
	// the state key is the durable image plus whatever the store object keeps in memory (nothing, today)
	// (hashed: millions of histories are held per level, the image itself is a few kilobytes of hex)
	if kv == nil {
		return result{trace: trace} // badger histories are enumerated without merging
	}
	sum := sha256.Sum256([]byte("img:" + kv.Canon() + "|mem:" + memState))
	return result{key: hex.EncodeToString(sum[:16]), trace: trace, nWrites: kv.NumWrites()}
}

// search is one explicit-state search: its alphabet, the heights and metadata keys every getter is called on, its depth.
type search struct {
	name     string
	acts     []action
	minH     uint64 // getters are called on the heights minH..maxH
	maxH     uint64
	metaKeys []string
	depth    int
	cfg      map[string]any // how the alphabet was put together (goes into the evidence)
	badger   bool           // run on the real on-disk badger datastore, every history up to depth (no merging, no crash actions)
}

func relSearch(name string, depth int, full, axis, crash []uint64, crashAxisOnly bool) search {
	crashOn := "every save shape"
	if crashAxisOnly {
		crashOn = "the signature-axis shapes"
	}
	return search{name: name, acts: relAlphabet(full, axis, crash, crashAxisOnly), minH: 1, maxH: 2, metaKeys: []string{"d"}, depth: depth, cfg: map[string]any{
		"heights_with_all_shapes": full, "heights_with_signature_axis_shapes_only": axis, "heights_with_crash_in_save": crash, "crash_in_save_applies_to": crashOn}}
}

// replayable history: which search, and the action indices.
type histRef struct {
	Search string `json:"search"`
	Hist   []int  `json:"hist"`
	// heights part (Search = "heights"): the heights written, in order; empty = the whole height set of the tier
	Heights []uint64 `json:"heights,omitempty"`
}

func TestCheck(t *testing.T) {
	r := vf.Start("C14", "model_checking")
	maxH := vf.Pick(r, uint64(2), uint64(3))
	metaKeys := vf.Pick(r, []string{"d", "last-submitted-header-height", "rhb/1/h"},
		[]string{"d", "l", "last-submitted-header-height", "last-submitted-data-height", "rhb/1/h", "rhb/1/d"})
	searches := []search{
		{name: "base", acts: alphabet(maxH, metaKeys), minH: 1, maxH: maxH, metaKeys: metaKeys, depth: vf.Pick(r, 5, 6),
			cfg: map[string]any{"heights": maxH, "metadata_keys": metaKeys, "metadata_values": []string{"01..", "02..", "empty slice", "nil"}}},
	}
	if !r.Thorough() {
		// every shape on height 1, the signature axis on height 2, crashes inside the signature-axis saves of height 1
		searches = append(searches, relSearch("relations", 3, []uint64{1}, []uint64{2}, []uint64{1}, true))
	} else {
		// every shape on both heights, crashes inside the signature-axis saves of both heights
		searches = append(searches, relSearch("relations", 3, []uint64{1, 2}, nil, []uint64{1, 2}, true))
		// every shape on height 1 with a crash inside every one of them, the signature axis on height 2
		searches = append(searches, relSearch("relations-crash", 3, []uint64{1}, []uint64{2}, []uint64{1}, false))
	}
	// the value dimension of the single-record writes, on all six key shapes of the node in both tiers
	nodeKeys := []string{"d", "l", "last-submitted-header-height", "last-submitted-data-height", "rhb/1/h", "rhb/1/d"}
	badgerKeys := vf.Pick(r, []string{"l", "rhb/1/d"}, []string{"l", "d", "rhb/1/d"})
	valCfg := func(keys []string, crash bool) map[string]any {
		c := map[string]any{"metadata_keys": keys, "metadata_values": []string{"01..", "02..", "empty slice", "nil"},
			"states":     []string{"all fields zero", "full 1", "full 2", "genesis-like (chain id and initial height only)"},
			"set_height": []uint64{0, 1}, "block_heights": []uint64{0, 1}, "block_shapes": []string{shapeFull.String(), shapeEmpty.String()}}
		if crash {
			c["crash_before_write_of"] = "each metadata value under key l; the zero and the genesis-like state; both block shapes at height 0"
		}
		return c
	}
	searches = append(searches,
		search{name: "values", acts: valuesAlphabet(nodeKeys, "l", true), minH: 0, maxH: 1, metaKeys: nodeKeys, depth: vf.Pick(r, 4, 5), cfg: valCfg(nodeKeys, true)},
		search{name: "values-badger", acts: valuesAlphabet(badgerKeys, "l", false), minH: 0, maxH: 1, metaKeys: badgerKeys, depth: vf.Pick(r, 2, 3), cfg: valCfg(badgerKeys, false), badger: true})
	r.Assume = []string{
		"datastore contract: a single Put/Delete and one Batch.Commit are atomic and durable (go-datastore/badger), modelled by the logging KV double",
		"by-hash reads of a superseded header are unspecified",
		"metadata keys are the shapes the node uses (d, l, last-submitted-*, rhb/<h>/{h,d})",
		"values written by the single-record writes are enumerated as kinds, not as arbitrary bytes: metadata ∈ {two non-empty 8-byte values, empty slice, nil}; state ∈ {all fields zero, two states with every field set, genesis-like}; set height ∈ {0..max}; a store whose behaviour depends on another property of the value (a particular length or byte pattern) is outside the bound",
		"a metadata read after a write of an empty value (empty slice or nil) must SUCCEED and return a zero-length value (nil and empty slice are not told apart); not-found is a different answer. That is what GetMetadata does on the unchanged tree over the double and over real badger (values-badger), and the callers tell the two apart (block/manager.go logs a failed read of LastBatchDataKey as an error after genesis and persists an empty batch-cursor list under it; the RPC store server turns not-found into an error)",
		"state reads are compared on every field of types.State (version, chain id, initial height, last block height and time, DA height, last results hash, app hash); nil and empty byte strings are not told apart",
		"values-badger runs on the real badger4 datastore (store.NewDefaultKVStore in a scratch directory) without crash injection and without merging histories; it checks the same oracle and thereby that the logging double agrees with badger on empty values and on close + reopen",
		"heights: the explicit-state searches use heights 0..3; the numeric value of the height is covered by the heights part on the height set listed under bounds.searches.heights.height_set (one tiny block per height: no signer, no metadata, one 8-byte transaction; header, data and signature pairwise distinct). A store that misplaces a record only for a height outside that set, or only for a particular combination of height and block contents, is outside the bound",
		"the per-height metadata keys are built as block/manager.go builds them (fmt.Sprintf(\"%s/%d/h\" and \"%s/%d/d\", store.RollkitHeightToDAHeightKey, height)); the format string is copied into the harness, the prefix constant is the repository's",
		"a height that was never written must not be found (GetBlockData, GetHeader, GetSignature, GetMetadata of its rhb key fail), as in the searches; the heights part probes the never-written neighbours h±1 of every written height",
		"SaveBlockData arguments are enumerated as shapes, not as arbitrary bytes: 3 headers (two data hashes and the no-transactions hash), 3 signature values including the empty one used independently for header.Signature and for the signature argument, 5 data values (two transaction lists with/without metadata, no transactions with/without metadata); a store whose behaviour depends on a relation between arguments that these shapes do not realise is outside the bound",
	}
	// the heights part: key injectivity over the numeric value of the height (heights_test.go)
	hset := buildHeights(vf.Pick(r, uint64(1)<<18, uint64(1)<<20), vf.Pick(r, []byte{'/', '.', 0x00, 'A'}, []byte{'/', '.', 0x00, 'A', 0x01}),
		vf.Pick(r, []byte{0x00, 0x01, 'A', 0xff}, []byte{0x00, 0x01, 'A', 0xff, '/', '.'}))
	if r.ReplayPath() != "" {
		var ref histRef
		if _, err := r.LoadReplay(&ref); err != nil {
			// replay artefacts written before the relations search existed are bare index lists of the base search
			ref = histRef{Search: "base"}
			if _, err2 := r.LoadReplay(&ref.Hist); err2 != nil {
				r.EngineError(err.Error())
			}
		}
		found := false
		if ref.Search == "heights" {
			found = true
			hs := ref.Heights
			if len(hs) == 0 {
				hs = hset.hs
			}
			if vs, _ := runHeights(hs, true); len(vs) > 0 {
				tagged := hs
				if len(ref.Heights) == 0 {
					tagged = []uint64{vs[0].h}
					if vs[0].hasOth {
						tagged = append(tagged, vs[0].other)
					}
				}
				r.Report(vf.Violation{Clause: vs[0].clause, Tags: heightTags(tagged), Msg: vs[0].msg, Cost: len(hs), History: ref})
			}
		}
		for _, sp := range searches {
			if sp.name != ref.Search {
				continue
			}
			found = true
			res := runHistory(&sp, ref.Hist)
			if res.clause == "engine" {
				r.EngineError(res.msg)
			} else if res.clause != "" {
				r.Report(vf.Violation{Clause: res.clause, Tags: tagsOf(sp.name, sp.acts, ref.Hist), Msg: res.msg + "\n history: " + strings.Join(res.trace, " ; "), History: ref})
			}
		}
		if !found {
			r.EngineError("replay names an unknown search: " + ref.Search)
		}
		r.Finish(vf.Coverage{Evaluations: 1, DistinctNontrivial: 1})
		return
	}
	var caps []string
	var totStates, totTrans int64
	exhaustive := true
	perSearch := map[string]any{}
	relSamples := []string{}
	for _, sp := range searches {
		sp := sp
		var mu sync.Mutex
		t0 := time.Now()
		workers := 0
		if sp.badger {
			workers = 8 // an open badger instance holds tens of megabytes
		}
		st := explore.BFS(explore.BFSConfig{Depth: sp.depth, Actions: len(sp.acts), Workers: workers, Deadline: vf.Pick(r, 5*time.Minute, 20*time.Minute)}, func(hist []int) explore.Step {
			res := runHistory(&sp, hist)
			if res.prune {
				return explore.Step{Prune: true}
			}
			if res.clause == "engine" {
				r.EngineError(res.msg)
				return explore.Step{Prune: true}
			}
			if sp.badger && res.clause == "" {
				// no merging on the real datastore: every history is its own state
				if len(hist) == sp.depth && hist[0]%5 == 2 && hist[len(hist)-1]%7 == 3 {
					r.Sample("on badger: " + strings.Join(res.trace, " ; "))
				}
				return explore.Step{Key: fmt.Sprint(hist)}
			}
			if res.clause != "" {
				r.Report(vf.Violation{Clause: res.clause, Tags: tagsOf(sp.name, sp.acts, hist), Msg: res.msg + "\n history: " + strings.Join(res.trace, " ; "), Cost: len(hist),
					History: histRef{Search: sp.name, Hist: append([]int(nil), hist...)}})
				return explore.Step{Prune: true}
			}
			if len(hist) == 3 || len(hist) == sp.depth {
				r.Sample(strings.Join(res.trace, " ; "))
				if strings.HasPrefix(sp.name, "relations") {
					mu.Lock()
					if len(relSamples) < 6 && hist[0] != hist[1] && hist[1]%7 == 3 {
						relSamples = append(relSamples, strings.Join(res.trace, " ; "))
					}
					mu.Unlock()
				}
			}
			r.Outcome(res.key)
			return explore.Step{Key: res.key}
		})
		if st.Capped != "" {
			caps = append(caps, sp.name+": "+st.Capped)
		}
		// complete = every level up to the depth bound was expanded, or the frontier ran empty before (fixpoint)
		fix := st.Capped == "" && len(st.PerLevel) > 0 && st.PerLevel[len(st.PerLevel)-1] == 0
		if st.DepthDone != sp.depth && !fix {
			exhaustive = false
		}
		totStates += st.States
		totTrans += st.Transitions
		nSave, nCrash := 0, 0
		for _, a := range sp.acts {
			switch a.kind {
			case "save":
				nSave++
			case "crashsave":
				nCrash++
			}
		}
		perSearch[sp.name] = map[string]any{"depth": st.DepthDone, "alphabet": len(sp.acts), "save_actions": nSave, "crash_in_save_actions": nCrash,
			"heights_read": []uint64{sp.minH, sp.maxH}, "backend": map[bool]string{false: "logging KV double", true: "real badger4 datastore on disk (store.NewDefaultKVStore), reopen = Close + open"}[sp.badger],
			"merged_by_state": !sp.badger, "states": st.States, "transitions": st.Transitions, "states_per_level": st.PerLevel, "fixpoint": fix, "alphabet_config": sp.cfg,
			"wall_seconds": float64(int(time.Since(t0).Seconds()*10)) / 10}
	}
	sort.Strings(relSamples)
	var hEvals int64
	{
		// the heights part runs after the searches (its large live heap would make every collection of the searches' garbage expensive)
		hViols, hStats := runHeights(hset.hs, true)
		var hSamples []string
		// report the first violations by height and the first of every clause, each minimised to the one or two heights
		// that reproduce it on a fresh store (otherwise the whole height set is the history)
		seenClause := map[string]bool{}
		reported := 0
		for _, v := range hViols {
			if reported >= 4 && seenClause[v.clause] {
				continue
			}
			seenClause[v.clause] = true
			reported++
			hist, mv := minimise(v, hset.hs)
			if hist != nil {
				r.Report(vf.Violation{Clause: mv.clause, Tags: heightTags(hist), Cost: len(hist), History: histRef{Search: "heights", Heights: hist},
					Msg: fmt.Sprintf("%s\n history: %s\n (found in the run over all %d heights, class of %d: %s; %d heights of that run read back wrong)", mv.msg, describeHeights(hist), len(hset.hs), v.h, hset.classOf[v.h], len(hViols))})
				continue
			}
			tagged := []uint64{v.h}
			if v.hasOth {
				tagged = append(tagged, v.other)
			}
			r.Report(vf.Violation{Clause: v.clause, Tags: heightTags(tagged), Cost: len(hset.hs), History: histRef{Search: "heights"},
				Msg: fmt.Sprintf("%s\n history: all %d heights of the height set written in ascending order on one store (class of %d: %s; %d heights read back wrong; does not reproduce with these heights alone)", v.msg, len(hset.hs), v.h, hset.classOf[v.h], len(hViols))})
		}
		for _, cls := range []string{"dense", "power-of-two±1", "power-of-ten±1", "path-syntax-word", "adjacent-special-bytes"} {
			for _, h := range hset.hs {
				if hset.classOf[h] == cls && h > 1000 {
					hdrKey, _ := rhbKeys(h)
					hSamples = append(hSamples, fmt.Sprintf("%s: height %d = 0x%016x, block + set height + metadata %s written and read back", cls, h, h, hdrKey))
					break
				}
			}
		}
		hEvals = hStats.heights + hStats.probes
		perSearch["heights"] = map[string]any{"backend": "logging KV double, ONE store for all heights", "distinct_heights": hStats.heights, "heights_per_class": hset.perCls,
			"never_written_neighbours_probed": hStats.probes, "store_operations": hStats.ops, "heights_read_back_wrong": len(hViols), "height_set": hset.cfg,
			"phases": "write (ascending: save block, set height, read height, set rhb/<h>/h and rhb/<h>/d); read by height and by hash + metadata, never-written neighbours h±1 not found; set every height again (never lowers the recorded height); reopen; read again",
			"wall_seconds": hStats.seconds, "wall_seconds_per_phase": hStats.phase, "samples": hSamples}
	}
	r.Finish(vf.Coverage{
		Evaluations: totTrans + hEvals, DistinctNontrivial: int64(r.DistinctOutcomes()), States: totStates, Transitions: totTrans,
		Rule: "separate explicit-state searches (base, relations, values, values-badger; thorough adds relations-crash) and one bounded-exhaustive enumeration (heights), the searches each over every operation history up to its depth bound over its alphabet, executed on a fresh real DefaultStore and compared getter by getter " +
			"(block, whole signed header, signature by height; block and signature by hash; height, state, metadata) with a map model after every history. " +
			"base: save block h×{same,same-hash-other-signature,other-hash} with signature argument = header.Signature, set height, update state, " +
			"set metadata key × value ∈ {X, Y, empty slice, nil} (so every overwrite order non-empty/empty/nil on a key, interleaved with all other operations), reopen, " +
			"crash before the k-th durable write of a save/metadata (non-empty and empty value)/state write then reopen. " +
			"relations: saves whose ARGUMENTS are spelled out — header ∈ {data hash A, data hash B, the no-transactions hash} × header.Signature ∈ {empty,P,Q} × signature argument ∈ {empty,P,Q} " +
			"(equal / different / empty, both ways) × data ∈ {txs A without metadata, txs A, txs B, no txs without metadata (empty value), no txs with metadata} (matching / not matching header.DataHash), " +
			"same values at every height — as saves and resaves in any order, with reopen and with a crash before the k-th (k<4) durable write of such a save " +
			"(which heights carry every shape or only the 18 signature-axis shapes = header.Signature × argument on one matching non-empty and one matching empty block, and which saves can crash, " +
			"is listed per search under bounds.searches.*.alphabet_config); the producer's early save " +
			"(previous signature in the header, empty argument, data without metadata) followed by the final save (both signatures equal, metadata set) is one of the length-2 histories. " +
			"values: the VALUE of every single-record write spelled out — set metadata on all six key shapes of the node × {X, Y, empty slice, nil}; update state ∈ {all fields zero, full 1, full 2, genesis-like}, " +
			"every field of the state compared; set height 0 and 1; blocks at height 0 and 1 that are full or consist of empty parts only (no signatures, data that marshals to the empty value), getters called on heights 0..1; reopen; " +
			"crash before the durable write of each metadata value under key l, of the zero and genesis-like state, of both block shapes at height 0. A read after an empty write must succeed with a zero-length value, also after reopen and after a later overwrite in either direction. " +
			"values-badger: the crash-free part of the values alphabet (fewer keys, see alphabet_config) as every history up to its depth on the real on-disk badger datastore, reopen = Close + open, no merging. " +
			"heights: key injectivity over the numeric value of the height — on ONE fresh store over the logging double, for every height of the height set in ascending order (the dense range 0..N; 2^k-1, 2^k, 2^k+1 for k ≤ 63; 10^k-1, 10^k, 10^k+1 for k ≤ 19; MaxUint64-1, MaxUint64; " +
			"every 8-byte word over a small alphabet of path-syntax bytes and neutral bytes read as a number; every pair and triple of adjacent special bytes {/ . \\ NUL % : LF 0xff} at every position of an 8-byte word on a constant background, big- and little-endian; N, alphabet and backgrounds under bounds.searches.heights.height_set): " +
			"save a block that is pairwise distinct in header, data and signature, set the recorded height to it and read it (= the largest value so far), write the node's metadata records rhb/<height>/h and rhb/<height>/d; " +
			"then for every height: block, header, signature by height, block and signature by hash, both metadata records must be the ones written for that height, and the never-written neighbours h±1 must not be found; " +
			"then set the height to every value again (it never goes down); then reopen and read every height again (clause durability). " +
			"A violation is minimised by re-running only the height it was seen at, or that height and the height whose record came back, on a fresh store. " +
			"Histories are merged when the durable key/value image and the in-memory fields of the store object (reflection hook; none today) are identical; " +
			"distinct = distinct images over all searches; states/transitions = sums over the searches; evaluations = transitions + heights written and read back + never-written heights probed in the heights part",
		Exhaustive: exhaustive, Caps: caps,
		Bounds: map[string]any{"heights": maxH, "metadata_keys": metaKeys, "metadata_value_kinds": []string{"non-empty X", "non-empty Y", "empty slice", "nil"}, "searches": perSearch,
			"shapes_per_height": len(allShapes()), "signature_axis_shapes": len(axisShapes())},
		Extra: map[string]any{"relations_samples": relSamples},
	})
}
