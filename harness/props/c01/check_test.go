package c01

import (
	"bytes"
	"context"
	"fmt"
	"strings"
	"testing"
	"time"

	coreseq "github.com/evstack/ev-node/core/sequencer"

	"verif/harness/explore"
	"verif/harness/vf"
	"verif/harness/world"
)

// C01 — the sequencer node only ever commits a valid, hash-linked, signed chain, and never gets stuck.
// Stateless exhaustive enumeration of (sequencing answer, execution outcome, restart) per production step on the
// real Manager.publishBlock over the real store; oracle recomputed from the store after every step.

const (
	ansFresh = iota // non-empty fresh batch, +1s
	ansEmpty        // empty batch, +1s
	ansAbsent
	ansError
	ansFreshSameTime // non-empty, Δt = 0
	ansFreshEarlier  // non-empty, Δt = -1s
	ansEmptySameTime
	ansEmptyEarlier
	ansRepeat // the same transactions as the previous non-empty batch
	ansNilBatch
	// batch shapes: the CONTENT of a non-empty batch (+1s each)
	ansZeroFirst // zero-length transaction first
	ansZeroMid   // ... in the middle
	ansZeroLast  // ... last
	ansZeroOnly  // only zero-length transactions (one nil, one empty)
	ansDupTx     // the same transaction twice in one batch
	ansOneByte   // a single 1-byte transaction
	ansLargeTx   // a 64 KiB transaction followed by a small one
	numAns
)

const largeTxSize = 64 << 10

var ansNames = [...]string{"fresh+1s", "empty+1s", "absent", "error", "fresh+0", "fresh-1s", "empty+0", "empty-1s", "repeat+1s", "nil-batch",
	"zero-len-first+1s", "zero-len-mid+1s", "zero-len-last+1s", "zero-len-only+1s", "dup-tx+1s", "one-byte+1s", "large-tx+1s"}

// shapeTags are the history features of the batch shapes.
var shapeTags = map[int]string{
	ansZeroFirst: "batch-with-zero-length-tx", ansZeroMid: "batch-with-zero-length-tx", ansZeroLast: "batch-with-zero-length-tx",
	ansZeroOnly: "batch-of-only-zero-length-txs", ansDupTx: "duplicate-tx-in-batch", ansOneByte: "one-byte-tx", ansLargeTx: "large-tx",
}

type event struct {
	Step int    `json:"step"`
	What string `json:"what"`
}

type outcome struct {
	fail   *world.Fail
	tags   []string
	events []event
	height uint64
	sig    string
}

func body(c *explore.Ctx, steps int) outcome {
	ctx := context.Background()
	var out outcome
	ev := func(step int, f string, a ...any) { out.events = append(out.events, event{step, fmt.Sprintf(f, a...)}) }
	initial := uint64(1)
	if c.Choose("config", 2) == 1 {
		initial = 3
	}
	p := world.Params{InitialHeight: initial}
	env := world.NewEnv()
	step := 0
	wellFormed := false
	clock := world.GenesisTime // last timestamp handed out
	maxClock := clock
	var lastTxs [][]byte
	fresh := 0
	sawEmptyEarlier, sawFreshEarlier, sawExecErr := false, false, false
	sawShape := map[string]bool{}
	env.Seq.Next = func(req coreseq.GetNextBatchRequest) world.SeqAnswer {
		a := ansFresh
		if !wellFormed {
			a = c.Choose("seq", numAns)
		}
		ev(step, "seq:%s", ansNames[a])
		mk := func(txs [][]byte, d time.Duration) world.SeqAnswer {
			t := clock.Add(d)
			if wellFormed {
				t = maxClock.Add(time.Second)
			}
			clock = t
			if t.After(maxClock) {
				maxClock = t
			}
			return world.SeqAnswer{Kind: "batch", Txs: txs, Time: t}
		}
		newTxs := func() [][]byte {
			fresh++
			lastTxs = [][]byte{[]byte(fmt.Sprintf("tx-%d-a", fresh)), []byte(fmt.Sprintf("tx-%d-b", fresh))}
			return lastTxs
		}
		// shaped: a fresh non-empty batch whose content has the given shape (a, b are fresh ordinary transactions)
		shaped := func(a int) [][]byte {
			fresh++
			sawShape[shapeTags[a]] = true
			ta, tb := []byte(fmt.Sprintf("tx-%d-a", fresh)), []byte(fmt.Sprintf("tx-%d-b", fresh))
			switch a {
			case ansZeroFirst:
				lastTxs = [][]byte{{}, ta, tb}
			case ansZeroMid:
				lastTxs = [][]byte{ta, {}, tb}
			case ansZeroLast:
				lastTxs = [][]byte{ta, tb, nil}
			case ansZeroOnly:
				lastTxs = [][]byte{nil, {}}
			case ansDupTx:
				lastTxs = [][]byte{ta, ta}
			case ansOneByte:
				lastTxs = [][]byte{{byte(fresh)}}
			default: // ansLargeTx
				big := bytes.Repeat([]byte{byte(fresh)}, largeTxSize)
				copy(big, ta)
				lastTxs = [][]byte{big, tb}
			}
			return lastTxs
		}
		switch a {
		case ansFresh:
			return mk(newTxs(), time.Second)
		case ansEmpty:
			return mk(nil, time.Second)
		case ansAbsent:
			return world.SeqAnswer{Kind: "absent"}
		case ansError:
			return world.SeqAnswer{Kind: "error"}
		case ansFreshSameTime:
			return mk(newTxs(), 0)
		case ansFreshEarlier:
			sawFreshEarlier = true
			return mk(newTxs(), -time.Second)
		case ansEmptySameTime:
			return mk(nil, 0)
		case ansEmptyEarlier:
			sawEmptyEarlier = true
			return mk(nil, -time.Second)
		case ansRepeat:
			if lastTxs == nil {
				return mk(newTxs(), time.Second)
			}
			return mk(lastTxs, time.Second)
		case ansNilBatch:
			return world.SeqAnswer{Kind: "nilbatch", Time: clock.Add(time.Second)}
		default:
			return mk(shaped(a), time.Second)
		}
	}
	env.Exec.ExecPolicy = func(h uint64) bool {
		if wellFormed {
			return false
		}
		if c.Choose("exec", 2) == 1 {
			sawExecErr = true
			ev(step, "exec:error")
			return true
		}
		return false
	}
	n, err := world.StartNode(p, env, nil, world.NodeOpts{Aggregator: true})
	if err != nil {
		out.fail = &world.Fail{Clause: "startup", Msg: "NewManager on an empty store failed: " + err.Error()}
		return out
	}
	spec := func() world.ChainSpec {
		// the batch-correspondence clause is checked below by world.CheckBuiltFrom (all batches, empty blocks too)
		return world.ChainSpec{ChainID: n.P.ChainID, Initial: initial, Proposer: n.Signer}
	}
	handed := func() [][][]byte {
		bs := make([][][]byte, 0, len(env.Seq.HandedOut))
		for _, a := range env.Seq.HandedOut {
			bs = append(bs, a.Txs)
		}
		return bs
	}
	var sb strings.Builder
	check := func(prevHeight uint64) (uint64, *world.Fail) {
		h, blocks, f := world.CheckChain(n.OracleStore(), spec())
		if f != nil {
			return h, f
		}
		// every block (empty ones too) carries exactly the transaction list of the batch it was built from, element by
		// element, and blocks take batches in hand-out order
		// (the block at the initial height is the empty block NewManager pre-saves at start-up: it is built from no
		// batch, so it is exempt as long as it is empty)
		bb, first := blocks, initial
		if len(bb) > 0 && len(bb[0].D.Txs) == 0 {
			bb, first = bb[1:], initial+1
		}
		if f := world.CheckBuiltFrom(bb, first, handed()); f != nil {
			return h, f
		}
		if h < prevHeight {
			return h, &world.Fail{Clause: "height-monotone", Msg: fmt.Sprintf("chain height went from %d to %d", prevHeight, h)}
		}
		if h > prevHeight+1 {
			return h, &world.Fail{Clause: "one-height", Msg: fmt.Sprintf("one production step moved the chain height from %d to %d", prevHeight, h)}
		}
		// everything broadcast must be a committed block
		for _, hb := range n.HB.Payloads() {
			i := int(hb.Height() - initial)
			if i < 0 || i >= len(blocks) || !bytes.Equal(blocks[i].H.Hash(), hb.Hash()) {
				return h, &world.Fail{Clause: "broadcast-is-committed", Msg: fmt.Sprintf("header broadcast for height %d is not the committed header", hb.Height())}
			}
		}
		// execution calls for committed heights carry the committed transactions and the previous root
		roots := world.RootsOf(n.P.ChainID, blocks)
		for _, ec := range env.Exec.Log() {
			if ec.Kind != "exec" || ec.Height < initial || ec.Height > h {
				continue
			}
			i := int(ec.Height - initial)
			prev := world.GenesisRoot(n.P.ChainID)
			if i > 0 {
				prev = roots[i-1]
			}
			var btx [][]byte
			for _, tx := range blocks[i].D.Txs {
				btx = append(btx, tx)
			}
			if !world.TxsEqual(ec.Txs, btx) || !bytes.Equal(ec.Prev, prev) {
				return h, &world.Fail{Clause: "execution-inputs", Msg: fmt.Sprintf("execution layer was asked to execute height %d with transactions %s / previous root %X, committed block has %s / %X", ec.Height, world.DescribeTxs(ec.Txs), ec.Prev, world.DescribeTxs(btx), prev)}
			}
		}
		return h, nil
	}
	height := n.Height()
	mkTags := func() []string {
		var t []string
		if sawEmptyEarlier {
			t = append(t, "empty-batch-with-earlier-timestamp")
		}
		if sawFreshEarlier {
			t = append(t, "nonempty-batch-with-earlier-timestamp")
		}
		if sawExecErr {
			t = append(t, "execution-error")
		}
		if initial > 1 {
			t = append(t, "initial-height>1")
		}
		for _, st := range []string{"batch-with-zero-length-tx", "batch-of-only-zero-length-txs", "duplicate-tx-in-batch", "one-byte-tx", "large-tx"} {
			if sawShape[st] {
				t = append(t, st)
			}
		}
		return t
	}
	for step = 1; step <= steps; step++ {
		err, done := n.Produce(ctx)
		if !done {
			out.fail = &world.Fail{Clause: "engine", Msg: "production step did not complete"}
			return out
		}
		if err != nil {
			ev(step, "step-error:%s", short(err.Error()))
		}
		h, f := check(height)
		if f != nil {
			out.fail, out.tags = f, mkTags()
			return out
		}
		fmt.Fprintf(&sb, "%d", h-height)
		height = h
		if c.Choose("restart", 2) == 1 {
			ev(step, "restart")
			n2, err := world.StartNode(p, env, n.KV.Image(), world.NodeOpts{Aggregator: true})
			if err != nil {
				out.fail, out.tags = &world.Fail{Clause: "restart", Msg: "NewManager after a clean restart failed: " + err.Error()}, mkTags()
				return out
			}
			// the broadcaster log continues
			n2.HB.Sent, n2.DB.Sent = n.HB.Payloads(), n.DB.Payloads()
			n = n2
			if h2, f := check(height); f != nil || h2 != height {
				if f == nil {
					f = &world.Fail{Clause: "restart", Msg: fmt.Sprintf("chain height changed from %d to %d across a clean restart", height, h2)}
				}
				out.fail, out.tags = f, mkTags()
				return out
			}
		}
	}
	// well-formed again: production must resume
	wellFormed = true
	before := height
	for k := 1; k <= 3; k++ {
		step = steps + k
		err, _ := n.Produce(ctx)
		if err != nil {
			ev(step, "suffix-step-error:%s", short(err.Error()))
		}
		h, f := check(height)
		if f != nil {
			out.fail, out.tags = f, mkTags()
			return out
		}
		height = h
	}
	if height == before {
		out.fail = &world.Fail{Clause: "liveness", Msg: fmt.Sprintf("after the responses became well-formed again, 3 production steps added no block (height stays %d)", height)}
		out.tags = mkTags()
		return out
	}
	fmt.Fprintf(&sb, "|+%d", height-before)
	out.height = height
	out.sig = sb.String()
	return out
}

func short(s string) string {
	if len(s) > 90 {
		return s[:90]
	}
	return s
}

func TestCheck(t *testing.T) {
	r := vf.Start("C01", "model_checking")
	steps := vf.Pick(r, 4, 5)
	budgets := vf.Pick(r, map[string]int{"seq": 2, "exec": 1, "restart": 1}, map[string]int{"seq": 3, "exec": 2, "restart": 1})
	r.Assume = []string{
		"execution layer double: state root is the hash chain H(prev, txs) (contract-conforming reference)",
		"sequencing layer double answers from a 17-element menu per call (fresh/empty/absent/error/nil batch, timestamps +1s/0/-1s, repeated transactions; 7 batch-content shapes: zero-length transaction first/middle/last, only zero-length transactions, duplicate transaction in one batch, one 1-byte transaction, a 64 KiB transaction); ordinary transactions are 6-7 bytes",
		"every block is built from exactly one batch answer of the sequencing layer (no lazy-mode timer blocks in this world), so the batch-correspondence clause is an order-preserving matching of ALL blocks, empty ones included, to the batches handed out, compared element by element (length and bytes; nil and zero-length are the same value)",
		"'permanently unable' is decided as: 3 well-formed production steps add no block",
		"datastore contract as in C14",
	}
	run := func(c *explore.Ctx) outcome { return body(c, steps) }
	if r.ReplayPath() != "" {
		var ch []explore.Point
		if _, err := r.LoadReplay(&ch); err != nil {
			r.EngineError(err.Error())
		} else {
			c := explore.ReplayOne(ch, func(c *explore.Ctx) {
				if o := run(c); o.fail != nil {
					r.Report(vf.Violation{Clause: o.fail.Clause, Tags: o.tags, Msg: o.fail.Msg, History: ch})
				}
			})
			fmt.Println("replayed:", c.String())
		}
		r.Finish(vf.Coverage{Evaluations: 1, DistinctNontrivial: 1})
		return
	}
	st := explore.Explore(explore.Config{Budgets: budgets, Deadline: vf.Pick(r, 100*time.Second, 25*time.Minute)}, func(c *explore.Ctx) {
		o := run(c)
		if o.fail != nil {
			r.Report(vf.Violation{Clause: o.fail.Clause, Tags: o.tags, Msg: fmt.Sprintf("%s\n events: %v\n choices: %s", o.fail.Msg, o.events, c.String()), Cost: c.Cost(), History: c.Choices()})
			r.Outcome("fail:" + o.fail.Clause)
			return
		}
		r.Outcome(o.sig)
		if c.Cost() >= 2 {
			r.Sample(map[string]any{"choices": c.String(), "events": o.events, "final_height": o.height})
		}
	})
	for _, m := range st.Nondet {
		r.EngineError("nondeterminism: " + m)
	}
	var caps []string
	if st.Capped != "" {
		caps = append(caps, st.Capped)
	}
	r.Finish(vf.Coverage{
		Evaluations: st.Executions, DistinctNontrivial: int64(r.DistinctOutcomes()), States: st.Executions, Transitions: st.Points,
		Rule:       "every sequence of (sequencing answer from a 17-element menu incl. 7 batch-content shapes [zero-length tx first/middle/last, only zero-length txs, duplicate tx, 1-byte tx, 64 KiB tx], execution ok/error, clean restart yes/no) over the production steps within the per-class deviation budgets, initial height 1 and 3, each followed by 3 well-formed steps; after every step each committed block, empty or not, is matched element by element with the batches handed out; distinct = distinct per-step height-growth signatures",
		Exhaustive: true, Caps: caps,
		Bounds: map[string]any{"steps": steps, "budgets": budgets, "initial_heights": []int{1, 3}, "max_decision_points": st.MaxDepth, "seq_menu": int(numAns), "batch_shapes": 7, "tx_sizes_bytes": []int{0, 1, 6, 7, largeTxSize}, "max_txs_per_batch": 3},
	})
}
