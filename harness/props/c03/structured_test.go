package c03

import (
	"bytes"
	"fmt"
	"sort"
	"strings"
	"sync"
	"testing"

	"github.com/libp2p/go-libp2p/core/crypto"
	"google.golang.org/protobuf/proto"

	"github.com/evstack/ev-node/types"
	pb "github.com/evstack/ev-node/types/pb/evnode/v1"

	"verif/harness/vf"
	"verif/harness/world"
)

// Part 3 — STRUCTURALLY INCOMPLETE items that name the proposer.
//
// Everything here is valid protobuf of the two item kinds the node reads from the DA layer (SignedHeader, SignedData)
// with parts missing, built from PUBLIC material only (the proposer's published blobs, its address and public key, the
// attacker's own key). Two families, generated — nothing hand-picked (generator: world.StructuredForms):
//
//   as-published: the genuine header blob / data blob of block T with every set of <= kDel populated nodes of its
//                 protobuf tree removed (a sub-message removed or left present-but-empty) and every minimal message of
//                 <= kKeep leaves; signature and signer stay as the proposer published them unless they are among
//                 the removed nodes (so the signature is stale; removing signer.pub_key / signer.address / signer
//                 yields the address-only / key-only / signer-less shapes under the proposer's identity);
//   attacker-signed: the BODY (header resp. data sub-message) of the genuine item, complete, absent, empty, with every
//                 set of <= kBodyDel nodes removed and every minimal body of <= kBodyKeep leaves, x header proposer
//                 address {as published, attacker's} x EVERY signer shape: signer absent, or present with
//                 address in {absent, proposer's, attacker's} x pub_key in {absent, proposer's, attacker's}
//                 (the catalogue's identity matrix plus the address-only / key-only / neither shapes), signed by the
//                 attacker's key over the bytes the node will verify (a fixed garbage signature where the body does
//                 not decode far enough to be signed).
//
// Delivery: over the DA layer in batches of one DA height (a batch that makes the node deviate is split down to every
// single blob), at every position and for both genuine-traffic variants of part 1; every header form that decodes to
// the target height additionally through the P2P header store, every incomplete form of the unsigned Data through the
// P2P data store (one item per run: the stores hold one item per height).
//
// Oracle: the clauses of part 1 (differential against the run without the adversary, stored chain signed by the
// proposer, nothing foreign executed/stored) plus: a PANIC of any of the node's loops (the node runs them as bare
// goroutines: the process dies, and dies again on the same blob after every restart) caused by DA-borne material is
// the violation third-party-da-material-halts-node. Over P2P a halt/panic stays an observation (see Assume).

type sBounds struct {
	KDel, KKeep         int // whole-message forms, as published
	KBodyDel, KBodyKeep int // body forms, attacker-signed under every signer shape
}

type sItem struct {
	Blob []byte
	Form string // "signed-header-form" | "signed-data-form" | "p2p-data-form"
	Desc string // structural operations
	Mode string // "as-published(stale-signature)" | "attacker-signed" | "attacker-identity(garbage-signature:unsignable-form)"
	Sig  string // signer shape for attacker modes ("" = as published minus deletions)
	// ProposerSigned: the removed nodes lie outside the signed bytes, so the proposer's own published signature still
	// verifies (under the proposer's public key) over the item as the node decodes it. Such an item IS signed with the
	// proposer's private key: accepting it is no violation; only "does not halt the node" is demanded for it.
	ProposerSigned bool
}

func (it sItem) String() string {
	s := it.Form + " " + it.Desc + " " + it.Mode
	if it.Sig != "" {
		s += " " + it.Sig
	}
	return s
}

var garbageSig = bytes.Repeat([]byte{0xEE}, 64)

type namedBytes struct {
	n string
	v []byte
}

type signerShape struct {
	name string
	s    *pb.Signer
}

func signerShapes(pAddr, pKey, aAddr, aKey []byte) []signerShape {
	out := []signerShape{{"signer=absent", nil}}
	for _, a := range []namedBytes{{"absent", nil}, {"proposer's", pAddr}, {"attacker's", aAddr}} {
		for _, k := range []namedBytes{{"absent", nil}, {"proposer's", pKey}, {"attacker's", aKey}} {
			out = append(out, signerShape{fmt.Sprintf("signer(address=%s,pub_key=%s)", a.n, k.n), &pb.Signer{Address: append([]byte(nil), a.v...), PubKey: append([]byte(nil), k.v...)}})
		}
	}
	for i := range out { // nil instead of empty slices: absent on the wire either way
		if s := out[i].s; s != nil {
			if len(s.Address) == 0 {
				s.Address = nil
			}
			if len(s.PubKey) == 0 {
				s.PubKey = nil
			}
		}
	}
	return out
}

// attackerSigHeader signs the header body exactly as the node will decode and verify it.
func attackerSigHeader(body *pb.Header) (sig []byte, ok bool) {
	defer func() {
		if recover() != nil { // the harness's own use of the decoded form
			sig, ok = nil, false
		}
	}()
	if body == nil {
		return nil, false
	}
	var sh types.SignedHeader
	if err := sh.FromProto(&pb.SignedHeader{Header: body}); err != nil {
		return nil, false
	}
	payload, err := types.DefaultSignaturePayloadProvider(&sh.Header)
	if err != nil {
		return nil, false
	}
	sig, err = attacker.Sign(payload)
	return sig, err == nil
}

func attackerSigData(body *pb.Data) (sig []byte, ok bool) {
	defer func() {
		if recover() != nil {
			sig, ok = nil, false
		}
	}()
	if body == nil {
		return nil, false
	}
	var sd types.SignedData
	if err := sd.FromProto(&pb.SignedData{Data: body}); err != nil {
		return nil, false
	}
	payload, err := sd.Data.MarshalBinary()
	if err != nil {
		return nil, false
	}
	sig, err = attacker.Sign(payload)
	return sig, err == nil
}

type sGen struct {
	Items       []sItem
	Nodes       map[string]int
	Reencodings int // forms left out because they decode to exactly the genuine item
	// unsigned P2P data forms left out because they keep the complete genuine transaction list
	GenuineTxLists int
}

// proposerSignatureFits: does the signature carried by the blob verify under the proposer's public key over the item
// as the node decodes it?
func proposerSignatureFits(form string, blob []byte, pub crypto.PubKey) (ok bool) {
	defer func() {
		if recover() != nil {
			ok = false
		}
	}()
	switch form {
	case "signed-header-form":
		var x types.SignedHeader
		if x.UnmarshalBinary(blob) != nil || len(x.Signature) == 0 {
			return false
		}
		payload, err := types.DefaultSignaturePayloadProvider(&x.Header)
		if err != nil {
			return false
		}
		ok, err = pub.Verify(payload, x.Signature)
		return ok && err == nil
	case "signed-data-form":
		var x types.SignedData
		if x.UnmarshalBinary(blob) != nil || len(x.Signature) == 0 {
			return false
		}
		payload, err := x.Data.MarshalBinary()
		if err != nil {
			return false
		}
		ok, err = pub.Verify(payload, x.Signature)
		return ok && err == nil
	}
	return false
}

// canonical decodes a blob as the node does and re-encodes the decoded item (nil = does not decode).
func canonical(form string, blob []byte) (out []byte) {
	defer func() {
		if recover() != nil {
			out = nil
		}
	}()
	var err error
	switch form {
	case "signed-header-form":
		var x types.SignedHeader
		if x.UnmarshalBinary(blob) != nil {
			return nil
		}
		out, err = x.MarshalBinary()
	case "signed-data-form":
		var x types.SignedData
		if x.UnmarshalBinary(blob) != nil {
			return nil
		}
		out, err = x.MarshalBinary()
	default:
		var x types.Data
		if x.UnmarshalBinary(blob) != nil {
			return nil
		}
		out, err = x.MarshalBinary()
	}
	if err != nil {
		return nil
	}
	return out
}

var (
	sGenMu    sync.Mutex
	sGenCache = map[string]*sGen{}
)

// structuredItems builds the part-3 alphabet for target block T of the chain (deterministic order, no duplicates,
// never a genuine blob).
func structuredItems(pc *world.ProducerChain, T int, b sBounds) (*sGen, error) {
	key := fmt.Sprintf("%s/%d/%v", pc.Pattern, T, b)
	sGenMu.Lock()
	defer sGenMu.Unlock()
	if g, ok := sGenCache[key]; ok {
		return g, nil
	}
	g := &sGen{Nodes: map[string]int{}}
	seen := map[string]bool{"da:": true, "p2p:": true}
	for i := 0; i < pc.Len(); i++ {
		seen["da:"+string(pc.HdrBlobs[i])] = true
		if pc.DatBlobs[i] != nil {
			seen["da:"+string(pc.DatBlobs[i])] = true
		}
	}
	proposerPub := pc.Header(0).Signer.PubKey
	genuineCanon := map[string]bool{}
	for i := 0; i < pc.Len(); i++ {
		if c := canonical("signed-header-form", pc.HdrBlobs[i]); c != nil {
			genuineCanon["signed-header-form"+string(c)] = true
		}
		if pc.DatBlobs[i] != nil {
			if c := canonical("signed-data-form", pc.DatBlobs[i]); c != nil {
				genuineCanon["signed-data-form"+string(c)] = true
			}
		}
		if c := canonical("p2p-data-form", pc.Data[i]); c != nil {
			genuineCanon["p2p-data-form"+string(c)] = true
		}
	}
	push := func(m proto.Message, form, desc, mode, sig string) error {
		bz, err := world.DetMarshal.Marshal(m)
		if err != nil {
			return err
		}
		k := "da:" + string(bz) // the same bytes as a DA blob and as P2P data are different items
		if form == "p2p-data-form" {
			k = "p2p:" + string(bz)
		}
		if seen[k] {
			return nil
		}
		seen[k] = true
		if c := canonical(form, bz); c != nil && genuineCanon[form+string(c)] {
			// a re-encoding that decodes to exactly the genuine item (e.g. a default-valued sub-message left out) IS
			// the genuine item: same hash / commitment, the proposer's signature fits
			g.Reencodings++
			return nil
		}
		it := sItem{Blob: bz, Form: form, Desc: desc, Mode: mode, Sig: sig}
		if mode == "as-published(stale-signature)" && proposerSignatureFits(form, bz, proposerPub) {
			it.Mode, it.ProposerSigned = "as-published(proposer's-signature-still-fits)", true
		}
		g.Items = append(g.Items, it)
		return nil
	}
	var hp pb.SignedHeader
	if err := proto.Unmarshal(pc.HdrBlobs[T], &hp); err != nil {
		return nil, err
	}
	if hp.Signer == nil || len(hp.Signer.PubKey) == 0 || hp.Header == nil {
		return nil, fmt.Errorf("genuine header blob of block %d carries no signer key", T)
	}
	pAddr, pKey := hp.Signer.Address, hp.Signer.PubKey
	aAddr := attacker.Addr()
	aKey, err := crypto.MarshalPublicKey(attacker.Pub())
	if err != nil {
		return nil, err
	}
	shapes := signerShapes(pAddr, pKey, aAddr, aKey)
	// ---- headers
	forms, n := world.StructuredForms(&hp, b.KDel, b.KKeep)
	g.Nodes[fmt.Sprintf("signed-header-of-block-%d", T)] = n
	for _, f := range forms {
		if err := push(f.M, "signed-header-form", f.Desc, "as-published(stale-signature)", ""); err != nil {
			return nil, err
		}
	}
	type hbody struct {
		m    *pb.Header
		desc string
	}
	hbodies := []hbody{{proto.Clone(hp.Header).(*pb.Header), "header=complete"}, {nil, "header=absent"}, {&pb.Header{}, "header={}"}}
	bforms, n := world.StructuredForms(hp.Header, b.KBodyDel, b.KBodyKeep)
	g.Nodes[fmt.Sprintf("header-body-of-block-%d", T)] = n
	for _, f := range bforms {
		hbodies = append(hbodies, hbody{f.M.(*pb.Header), "header:" + f.Desc})
	}
	for _, hb := range hbodies {
		variants := []hbody{hb}
		if hb.m != nil && len(hb.m.ProposerAddress) > 0 {
			alt := proto.Clone(hb.m).(*pb.Header)
			alt.ProposerAddress = append([]byte(nil), aAddr...)
			variants = append(variants, hbody{alt, hb.desc + ",proposer_address=attacker's"})
		}
		for _, v := range variants {
			sig, ok := attackerSigHeader(v.m)
			mode := "attacker-signed"
			if !ok {
				sig, mode = garbageSig, "attacker-identity(garbage-signature:unsignable-form)"
			}
			for _, sh := range shapes {
				m := &pb.SignedHeader{Header: v.m, Signature: sig, Signer: sh.s}
				if err := push(m, "signed-header-form", v.desc, mode, sh.name); err != nil {
					return nil, err
				}
			}
		}
	}
	// ---- signed data (only non-empty blocks publish one) and the unsigned P2P form of the same data
	if pc.DatBlobs[T] != nil {
		var dp pb.SignedData
		if err := proto.Unmarshal(pc.DatBlobs[T], &dp); err != nil {
			return nil, err
		}
		if dp.Data == nil {
			return nil, fmt.Errorf("genuine data blob of block %d has no data", T)
		}
		forms, n := world.StructuredForms(&dp, b.KDel, b.KKeep)
		g.Nodes[fmt.Sprintf("signed-data-of-block-%d", T)] = n
		for _, f := range forms {
			if err := push(f.M, "signed-data-form", f.Desc, "as-published(stale-signature)", ""); err != nil {
				return nil, err
			}
		}
		type dbody struct {
			m    *pb.Data
			desc string
		}
		dbodies := []dbody{{proto.Clone(dp.Data).(*pb.Data), "data=complete"}, {nil, "data=absent"}, {&pb.Data{}, "data={}"}}
		bforms, n := world.StructuredForms(dp.Data, b.KBodyDel, b.KBodyKeep)
		g.Nodes[fmt.Sprintf("data-body-of-block-%d", T)] = n
		for _, f := range bforms {
			dbodies = append(dbodies, dbody{f.M.(*pb.Data), "data:" + f.Desc})
		}
		for _, db := range dbodies {
			sig, ok := attackerSigData(db.m)
			mode := "attacker-signed"
			if !ok {
				sig, mode = garbageSig, "attacker-identity(garbage-signature:unsignable-form)"
			}
			for _, sh := range shapes {
				m := &pb.SignedData{Data: db.m, Signature: sig, Signer: sh.s}
				if err := push(m, "signed-data-form", db.desc, mode, sh.name); err != nil {
					return nil, err
				}
			}
		}
		// unsigned P2P data: the incomplete forms of the genuine Data (the complete one IS the genuine data)
		gd, err := world.DetMarshal.Marshal(dp.Data)
		if err != nil {
			return nil, err
		}
		seen["p2p:"+string(gd)] = true
		for _, db := range dbodies[2:] {
			if len(db.m.Txs) == len(pc.Txs[T]) && world.TxsEqual(db.m.Txs, pc.Txs[T]) {
				// unsigned data is bound to the proposer's signature through the signed header's data hash, which
				// covers the transaction list only: a form that keeps the whole genuine list IS the proposer's
				// transaction data for that height, whatever is missing from its metadata
				g.GenuineTxLists++
				continue
			}
			if err := push(db.m, "p2p-data-form", db.desc, "unsigned", ""); err != nil {
				return nil, err
			}
		}
	}
	sGenCache[key] = g
	return g, nil
}

// decodeHeaderAt returns the typed header a node decodes from the blob if it can sit at the given height of a P2P
// header store (go-header stores an item under its own Height()).
func decodeHeaderAt(blob []byte, height uint64) (h *types.SignedHeader) {
	defer func() {
		if recover() != nil {
			h = nil
		}
	}()
	sh := new(types.SignedHeader)
	if err := sh.UnmarshalBinary(blob); err != nil || sh.Height() != height {
		return nil
	}
	return sh
}

func decodeDataAt(blob []byte, height uint64) (d *types.Data) {
	defer func() {
		if recover() != nil {
			d = nil
		}
	}()
	dd := new(types.Data)
	if err := dd.UnmarshalBinary(blob); err != nil || dd.Metadata == nil || dd.Height() != height {
		return nil
	}
	return dd
}

// shapeTags computes the history features of one structured item FROM ITS BYTES (plus how it was delivered).
func shapeTags(it sItem, pAddr, pKey, aAddr, aKey []byte) []string {
	tags := []string{"structurally-incomplete", it.Form, "mode:" + it.Mode, "struct:" + it.Desc}
	who := func(v, p, a []byte) string {
		switch {
		case len(v) == 0:
			return "absent"
		case bytes.Equal(v, p):
			return "proposer's"
		case bytes.Equal(v, a):
			return "attacker's"
		}
		return "other"
	}
	var signer *pb.Signer
	switch it.Form {
	case "signed-header-form":
		var m pb.SignedHeader
		if proto.Unmarshal(it.Blob, &m) != nil {
			return tags
		}
		signer = m.Signer
		switch {
		case m.Header == nil:
			tags = append(tags, "no-header-sub-message")
		case proto.Size(m.Header) == 0:
			tags = append(tags, "empty-header-sub-message")
		default:
			tags = append(tags, "header-proposer-address="+who(m.Header.ProposerAddress, pAddr, aAddr))
		}
		if len(m.Signature) == 0 {
			tags = append(tags, "no-signature")
		}
	case "signed-data-form":
		var m pb.SignedData
		if proto.Unmarshal(it.Blob, &m) != nil {
			return tags
		}
		signer = m.Signer
		switch {
		case m.Data == nil:
			tags = append(tags, "no-data-sub-message")
		case len(m.Data.Txs) > 0 && m.Data.Metadata == nil:
			tags = append(tags, "txs-without-metadata")
		case len(m.Data.Txs) > 0:
			tags = append(tags, "txs+metadata")
		default:
			tags = append(tags, "no-txs")
		}
		if len(m.Signature) == 0 {
			tags = append(tags, "no-signature")
		}
	case "p2p-data-form":
		var m pb.Data
		if proto.Unmarshal(it.Blob, &m) == nil {
			if len(m.Txs) == 0 {
				tags = append(tags, "no-txs")
			}
			if m.Metadata == nil {
				tags = append(tags, "no-metadata")
			}
		}
		return tags
	}
	if signer == nil {
		tags = append(tags, "signer=absent")
		return tags
	}
	a, k := who(signer.Address, pAddr, aAddr), who(signer.PubKey, pKey, aKey)
	tags = append(tags, fmt.Sprintf("signer(address=%s,pub_key=%s)", a, k))
	if a == "proposer's" && k == "absent" {
		tags = append(tags, "names-proposer-address-without-public-key")
	}
	if a == "absent" && k == "proposer's" {
		tags = append(tags, "proposer-public-key-without-address")
	}
	return tags
}

func signerTag(tags []string) string {
	for _, t := range tags {
		if strings.HasPrefix(t, "signer") {
			return t
		}
	}
	return "signer:n/a"
}

// structStats are the measured counters of part 3 (run counters are summed over the worker processes, the alphabet
// description is the same in each).
type structStats struct {
	mu sync.Mutex

	Blobs    map[string]int // "pattern/T" -> structured items for that target
	ByMode   map[string]int // form + mode -> items (summed over targets)
	BySigner map[string]int // signer shape (from the bytes) -> items
	Nodes    map[string]int // populated protobuf nodes of the source messages
	// the shape of interest of round 4: decodes as signed data with txs and metadata, names the proposer's address, no key
	KeylessProposerAddressData int
	Reencodings                int // forms left out because they decode to exactly the genuine item
	GenuineTxLists             int // unsigned P2P data forms left out because they keep the complete genuine transaction list

	DAScans, DABlobDeliveries, Splits int64 // scans = full-node runs of one batch; deliveries = blobs x (position, variant)
	P2PHeaderRuns, P2PDataRuns        int64
	P2PHalts, P2PPanics               int64 // observations
	ProposerSignedTreatedDifferently  int64 // observation: runs in which re-encodings still carrying a fitting proposer signature changed the outcome
	Baselines                         int64
	HeaderFormsDecodable, LightPairs  int64
	LightPanics                       int64
	samples                           int
}

func newStructStats() *structStats {
	return &structStats{Blobs: map[string]int{}, ByMode: map[string]int{}, BySigner: map[string]int{}, Nodes: map[string]int{}}
}

func (st *structStats) add(o *structStats) {
	for k, v := range o.Blobs {
		st.Blobs[k] = v
	}
	for k, v := range o.ByMode {
		st.ByMode[k] = v
	}
	for k, v := range o.BySigner {
		st.BySigner[k] = v
	}
	for k, v := range o.Nodes {
		st.Nodes[k] = v
	}
	st.KeylessProposerAddressData = max(st.KeylessProposerAddressData, o.KeylessProposerAddressData)
	st.Reencodings = max(st.Reencodings, o.Reencodings)
	st.GenuineTxLists = max(st.GenuineTxLists, o.GenuineTxLists)
	st.DAScans += o.DAScans
	st.DABlobDeliveries += o.DABlobDeliveries
	st.Splits += o.Splits
	st.P2PHeaderRuns += o.P2PHeaderRuns
	st.P2PDataRuns += o.P2PDataRuns
	st.P2PHalts += o.P2PHalts
	st.P2PPanics += o.P2PPanics
	st.ProposerSignedTreatedDifferently += o.ProposerSignedTreatedDifferently
	st.Baselines += o.Baselines
}

type sPlan struct {
	Patterns     []string
	B            sBounds
	Batch        int
	P2PPositions []string
}

type sIdent struct{ pAddr, pKey, aAddr, aKey []byte }

func identOf(pc *world.ProducerChain) sIdent {
	var hp pb.SignedHeader
	_ = proto.Unmarshal(pc.HdrBlobs[0], &hp)
	aKey, _ := crypto.MarshalPublicKey(attacker.Pub())
	id := sIdent{aAddr: attacker.Addr(), aKey: aKey}
	if hp.Signer != nil {
		id.pAddr, id.pKey = hp.Signer.Address, hp.Signer.PubKey
	}
	return id
}

// describeAlphabet fills the alphabet counters for one (pattern, T).
func (st *structStats) describe(pc *world.ProducerChain, T int, g *sGen, id sIdent) {
	st.mu.Lock()
	defer st.mu.Unlock()
	key := fmt.Sprintf("%s/T=%d", pc.Pattern, T)
	if _, done := st.Blobs[key]; done {
		return
	}
	st.Blobs[key] = len(g.Items)
	st.Reencodings += g.Reencodings
	st.GenuineTxLists += g.GenuineTxLists
	for k, v := range g.Nodes {
		st.Nodes[pc.Pattern+":"+k] = v
	}
	for _, it := range g.Items {
		st.ByMode[it.Form+" "+it.Mode]++
		tags := shapeTags(it, id.pAddr, id.pKey, id.aAddr, id.aKey)
		st.BySigner[signerTag(tags)]++
		has := func(s string) bool {
			for _, t := range tags {
				if t == s {
					return true
				}
			}
			return false
		}
		if it.Form == "signed-data-form" && has("txs+metadata") && has("names-proposer-address-without-public-key") {
			st.KeylessProposerAddressData++
		}
	}
}

// runStructuredPlan explores share `shard` of `n` of part 3.
func runStructuredPlan(t *testing.T, r *vf.Run, st *structStats, plan sPlan, positions []string, shard, n int) {
	job := 0
	mine := func() bool {
		j := job
		job++
		return j%n == shard
	}
	for _, pt := range plan.Patterns {
		pc, err := world.BuildChain(pt, 1)
		if err != nil {
			r.EngineError(err.Error())
			continue
		}
		id := identOf(pc)
		var bs bases
		haveBases := false
		needBases := func() bool {
			if !haveBases {
				var ok bool
				bs, ok = mkBases(t, r, pt, pc)
				st.Baselines += int64(3 + len(bs.ahead))
				if !ok {
					return false
				}
				haveBases = true
			}
			return true
		}
		for T := 0; T < pc.Len(); T++ {
			g, err := structuredItems(pc, T, plan.B)
			if err != nil {
				r.EngineError("structured items: " + err.Error())
				continue
			}
			if len(g.Items) == 0 {
				r.EngineError("structured items: the generator produced nothing")
				continue
			}
			st.describe(pc, T, g, id)
			var daItems, daSigned, p2pH, p2pD []sItem // daSigned: judged for "does not halt the node" only, in batches of their own
			for _, it := range g.Items {
				switch it.Form {
				case "p2p-data-form":
					if decodeDataAt(it.Blob, pc.Initial+uint64(T)) != nil {
						p2pD = append(p2pD, it)
					}
				default:
					if it.ProposerSigned {
						daSigned = append(daSigned, it)
					} else {
						daItems = append(daItems, it)
					}
					if it.Form == "signed-header-form" && decodeHeaderAt(it.Blob, pc.Initial+uint64(T)) != nil {
						p2pH = append(p2pH, it)
					}
				}
			}
			// DA: batches x position x genuine-traffic variant
			for _, pos := range positions {
				for _, via := range []string{"da", "p2p"} {
					if !applicable(&item{Channel: "da"}, T, pos, via) {
						continue
					}
					for _, list := range [][]sItem{daItems, daSigned} {
						for lo := 0; lo < len(list); lo += plan.Batch {
							if !mine() {
								continue
							}
							if !needBases() {
								return
							}
							part := list[lo:min(lo+plan.Batch, len(list))]
							st.DABlobDeliveries += int64(len(part))
							scanStructured(t, r, st, pc, bs, id, part, T, pos, via)
						}
					}
				}
			}
			// P2P: one item per run
			for _, pos := range plan.P2PPositions {
				if !applicable(&item{Channel: "p2p-header"}, T, pos, "da") {
					continue
				}
				for _, set := range []struct {
					ch    string
					items []sItem
				}{{"p2p-header", p2pH}, {"p2p-data", p2pD}} {
					// dealt out in chunks so that a worker builds few baselines
					for lo := 0; lo < len(set.items); lo += 16 {
						if !mine() {
							continue
						}
						if !needBases() {
							return
						}
						for _, it := range set.items[lo:min(lo+16, len(set.items))] {
							if set.ch == "p2p-header" {
								st.P2PHeaderRuns++
							} else {
								st.P2PDataRuns++
							}
							evalStructured(t, r, st, pc, bs, id, []sItem{it}, set.ch, T, pos, "da")
						}
					}
				}
			}
		}
	}
}

// scanStructured delivers a batch over the DA layer and splits a failing batch down to every single failing blob.
func scanStructured(t *testing.T, r *vf.Run, st *structStats, pc *world.ProducerChain, bs bases, id sIdent, part []sItem, T int, pos, via string) int {
	st.DAScans++
	if evalStructured(t, r, st, pc, bs, id, part, "da", T, pos, via) {
		return 0
	}
	if len(part) == 1 {
		return 1
	}
	st.Splits++
	n := scanStructured(t, r, st, pc, bs, id, part[:len(part)/2], T, pos, via) + scanStructured(t, r, st, pc, bs, id, part[len(part)/2:], T, pos, via)
	if n == 0 {
		// only the combination deviates: report it as such
		evalStructuredOpts(t, r, st, pc, bs, id, part, "da", T, pos, via, true)
		return 1
	}
	return n
}

func evalStructured(t *testing.T, r *vf.Run, st *structStats, pc *world.ProducerChain, bs bases, id sIdent, part []sItem, ch string, T int, pos, via string) bool {
	return evalStructuredOpts(t, r, st, pc, bs, id, part, ch, T, pos, via, false)
}

// evalStructuredOpts runs one full-node case of part 3 and judges it; true = no violation. A batch of more than one
// blob is only reported when reportCombination is set (the caller splits it first).
func evalStructuredOpts(t *testing.T, r *vf.Run, st *structStats, pc *world.ProducerChain, bs bases, id sIdent, part []sItem, ch string, T int, pos, via string, reportCombination bool) bool {
	it := item{Kind: "structurally-incomplete", Channel: ch}
	height := pc.Initial + uint64(T)
	switch ch {
	case "da":
		for _, s := range part {
			it.blobs = append(it.blobs, s.Blob)
		}
	case "p2p-header":
		it.hdr = decodeHeaderAt(part[0].Blob, height)
	case "p2p-data":
		it.data = decodeDataAt(part[0].Blob, height)
	}
	base := bs.da
	if via == "p2p" {
		base = bs.p2p
	}
	if pos == "successor-header-first" {
		base = bs.ahead[T]
	}
	res := run(t, pc, &it, T, pos, via)
	v, p2pHalt := judge(res, base, ch == "da")
	if v != nil && v.clause != "third-party-da-material-halts-node" {
		lenient := true
		for _, s := range part {
			lenient = lenient && s.ProposerSigned
		}
		if lenient {
			st.ProposerSignedTreatedDifferently++ // e.g. marked DA-included: it carries the proposer's signature
			v = nil
		}
	}
	if v == nil {
		if p2pHalt {
			st.P2PHalts++
			if len(res.panics) > 0 {
				st.P2PPanics++
			}
		}
		for _, s := range part {
			tags := shapeTags(s, id.pAddr, id.pKey, id.aAddr, id.aKey)
			r.Outcome(fmt.Sprintf("structured/%s/%s/%s/%s/%s", s.Form, s.Mode, signerTag(tags), ch, map[bool]string{false: "identical-to-baseline", true: "observation:halted-on-p2p-junk"}[p2pHalt]))
		}
		if len(part) == 1 && st.samples < 2 && strings.Contains(part[0].Desc, "pub_key") {
			st.samples++
			r.Sample(map[string]any{"case": fmt.Sprintf("chain genesis+%q, %s for height %d over %s, position %s", pc.Pattern, part[0], height, ch, pos), "result": "end state identical to the run without the adversary"})
		}
		return true
	}
	if len(part) > 1 && !reportCombination {
		return false
	}
	var tags []string
	var what string
	hist := map[string]any{"part": "structured", "pattern": pc.Pattern, "T": T, "channel": ch, "pos": pos, "genuine_via": via}
	if len(part) == 1 {
		tags = append([]string{ch + ":structurally-incomplete-" + part[0].Form}, shapeTags(part[0], id.pAddr, id.pKey, id.aAddr, id.aKey)...)
		what = fmt.Sprintf("%s = %x", part[0], part[0].Blob)
		hist["what"] = part[0].String()
	} else {
		tags = []string{ch + ":structurally-incomplete", "structurally-incomplete", "combination-of-blobs"}
		what = fmt.Sprintf("%d structurally incomplete blobs at one DA height together (neither half alone), first: %s", len(part), part[0])
	}
	hist["items"] = part
	tags = append(tags, "position:"+pos, "genuine-traffic-over:"+via)
	for _, p := range res.panics {
		tags = append(tags, "loop-panic:"+p.Loop)
	}
	sort.Strings(tags[1:])
	desc := fmt.Sprintf("chain genesis+%q (genuine traffic over %s), structurally incomplete third-party item for height %d over %s, position %s: %s", pc.Pattern, via, height, ch, pos, what)
	r.Outcome("structured:VIOLATION:" + v.clause)
	r.Report(vf.Violation{Clause: v.clause, Tags: tags, Msg: desc + "\n " + v.msg, Cost: len(part), History: hist})
	return false
}

// lightStructured: the two calls go-header makes on a received header, for every header form that decodes.
func lightStructured(r *vf.Run, st *structStats, pc *world.ProducerChain, T int, g *sGen, id sIdent) {
	if T < 1 {
		return
	}
	trusted := pc.Header(T - 1)
	for _, it := range g.Items {
		if it.Form != "signed-header-form" || it.ProposerSigned {
			continue
		}
		h := new(types.SignedHeader)
		if func() (bad bool) {
			defer func() {
				if recover() != nil {
					bad = true
				}
			}()
			return h.UnmarshalBinary(it.Blob) != nil
		}() {
			continue
		}
		st.HeaderFormsDecodable++
		st.LightPairs++
		accepted, panicked := false, false
		func() {
			defer func() {
				if recover() != nil {
					panicked = true
				}
			}()
			accepted = h.Validate() == nil && trusted.Verify(h) == nil
		}()
		if panicked {
			st.LightPanics++ // P2P-borne: observation
			continue
		}
		if accepted {
			tags := append([]string{"light:structurally-incomplete-" + it.Form}, shapeTags(it, id.pAddr, id.pKey, id.aAddr, id.aKey)...)
			r.Report(vf.Violation{Clause: "light-node-admission", Tags: tags, Msg: fmt.Sprintf("a header-only node whose trusted head is the genuine header %d accepts the structurally incomplete third-party header %s = %x (Validate()==nil and Verify()==nil)", trusted.Height(), it, it.Blob), Cost: 1,
				History: map[string]any{"part": "structured", "pattern": pc.Pattern, "T": T, "light": true, "items": []sItem{it}, "what": it.String()}})
		}
	}
}
