package c03

import (
	"bytes"
	"context"
	"encoding/json"
	"fmt"
	"os"
	"os/exec"
	"path/filepath"
	"runtime"
	"strconv"
	"strings"
	"sync"
	"testing"
	"testing/synctest"
	"time"

	"github.com/evstack/ev-node/block"
	"github.com/evstack/ev-node/types"

	"verif/harness/explore"
	"verif/harness/vf"
	"verif/harness/world"
)

// Part 2 — third-party TRANSACTION DATA in every delivery order.
//
// The sync loop has two input channels fed by four independent producers (DA retriever: headers and signed data,
// P2P header store loop, P2P data store loop) and Go's select takes whichever is ready, so at the level of the sync
// loop the genuine header and data events of a chain can arrive in any total order (C02 quantifies over the same
// set). Headers reach headerInCh only through isUsingExpectedSingleSequencer and DA data only through
// isValidSignedData (both exercised by part 1); the one path on which third-party material reaches the sync loop
// WITHOUT any admission test is DataStoreRetrieveLoop -> dataInCh (P2P data is unsigned). Part 2 therefore runs the
// real SyncLoop and DAIncluderLoop and delivers, into the real channels, every total order of the genuine events of a
// producer chain with k forged P2P data events inserted at every position, for every target height (empty and
// non-empty genuine blocks, and one height beyond the chain) and every forgery variant.
//
// Oracle: what the node executes, stores (= serves), records as state and finalizes is the proposer's — every
// ExecuteTxs call carries exactly the proposer's transactions of that height, every stored block is the proposer's
// header with the proposer's transactions, the recorded state root is the proposer's. In addition the end state is
// compared with the run of the SAME genuine order without the forged events; a difference that is safe in the above
// sense (the node stopped on junk P2P data, or is behind) is counted as an observation: the property's no-halt clause
// names third-party material on the DA layer only.

type tok struct {
	Forged  bool
	Ev      world.Event // genuine event
	T       int         // forged: target block index (pc.Len() = one height beyond the chain)
	Variant string      // forged: how the data was made
}

func (k tok) String() string {
	if k.Forged {
		return fmt.Sprintf("F%d:%s", k.T, k.Variant)
	}
	return k.Ev.String()
}

func parseTok(s string) (tok, error) {
	if strings.HasPrefix(s, "F") {
		i := strings.IndexByte(s, ':')
		if i < 0 {
			return tok{}, fmt.Errorf("bad token %q", s)
		}
		n, err := strconv.Atoi(s[1:i])
		return tok{Forged: true, T: n, Variant: s[i+1:]}, err
	}
	if len(s) < 2 || (s[0] != 'H' && s[0] != 'D') {
		return tok{}, fmt.Errorf("bad token %q", s)
	}
	n, err := strconv.Atoi(s[1:])
	return tok{Ev: world.Event{Header: s[0] == 'H', Idx: n}}, err
}

func seqStrings(seq []tok) []string {
	out := make([]string, len(seq))
	for i, k := range seq {
		out[i] = k.String()
	}
	return out
}

var evilTx = types.Tx("evil-tx")

// variantsFor lists the forgery variants applicable to target index T of the chain.
func variantsFor(pc *world.ProducerChain, T int, thorough bool) []string {
	vs := []string{"metadata-copied-from-genuine-header/own-txs", "own-metadata/own-txs"}
	nonEmpty := T < pc.Len() && len(pc.Txs[T]) > 0
	if nonEmpty {
		vs = append(vs, "metadata-copied-from-genuine-header/genuine-txs-plus-one")
	}
	if thorough {
		vs = append(vs, "wrong-chain-id/own-txs")
		if nonEmpty && len(pc.Txs[T]) > 1 {
			vs = append(vs, "metadata-copied-from-genuine-header/genuine-txs-minus-one")
		}
		if otherTxs(pc, T) != nil {
			vs = append(vs, "metadata-copied-from-genuine-header/genuine-txs-of-another-block")
		}
	}
	return vs
}

// otherTxs returns the transactions of the first non-empty block other than T whose list differs from T's.
func otherTxs(pc *world.ProducerChain, T int) [][]byte {
	for i := 0; i < pc.Len(); i++ {
		if i == T || len(pc.Txs[i]) == 0 {
			continue
		}
		if T < pc.Len() && world.TxsEqual(pc.Txs[i], pc.Txs[T]) {
			continue
		}
		return pc.Txs[i]
	}
	return nil
}

// forgedData builds an unsigned types.Data for the height of block index T — anybody can gossip one.
func forgedData(pc *world.ProducerChain, T int, variant string) *types.Data {
	var chainID string
	var height, tm uint64
	var lastDataHash types.Hash
	var genuine [][]byte
	if T < pc.Len() {
		h := pc.Header(T)
		chainID, height, tm = h.ChainID(), h.Height(), h.BaseHeader.Time
		if md := pc.DataAt(T).Metadata; md != nil {
			lastDataHash = md.LastDataHash
		}
		genuine = pc.Txs[T]
	} else {
		h := pc.Header(pc.Len() - 1)
		chainID, height, tm = h.ChainID(), h.Height()+uint64(T-pc.Len()+1), h.BaseHeader.Time+uint64(time.Second)
	}
	md := &types.Metadata{ChainID: chainID, Height: height, Time: tm, LastDataHash: lastDataHash}
	parts := strings.SplitN(variant, "/", 2)
	switch parts[0] {
	case "own-metadata":
		md.Time++
		md.LastDataHash = nil
	case "wrong-chain-id":
		md.ChainID = "other-chain"
	}
	d := &types.Data{Metadata: md}
	cp := func(txs [][]byte) types.Txs {
		var out types.Txs
		for _, tx := range txs {
			out = append(out, append(types.Tx(nil), tx...))
		}
		return out
	}
	switch parts[1] {
	case "own-txs":
		d.Txs = types.Txs{evilTx}
	case "genuine-txs-plus-one":
		d.Txs = append(cp(genuine), evilTx)
	case "genuine-txs-minus-one":
		d.Txs = cp(genuine[:len(genuine)-1])
	case "genuine-txs-of-another-block":
		d.Txs = cp(otherTxs(pc, T))
	default:
		panic("unknown variant " + variant)
	}
	return d
}

type orderResult struct {
	digest  string
	fatal   string
	unsafe  string // which safety clause failed ("" = everything the node did is the proposer's)
	unsafeM string
	height  uint64
}

func txList(d *types.Data) [][]byte {
	out := make([][]byte, len(d.Txs))
	for i, tx := range d.Txs {
		out[i] = tx
	}
	return out
}

// runOrder delivers seq into the real input channels of a fresh full node, one event at a time (each one fully
// processed before the next), with the DA-includer signalled after every event.
func runOrder(t *testing.T, pc *world.ProducerChain, seq []tok) (res orderResult) {
	synctest.Test(t, func(t *testing.T) {
		env := world.NewEnv()
		n, err := world.StartNode(world.Params{InitialHeight: pc.Initial, BlockTime: 1000 * time.Hour, DABlockTime: 1000 * time.Hour}, env, nil, world.NodeOpts{})
		if err != nil {
			res.fatal = "startup: " + err.Error()
			res.unsafe, res.unsafeM = "startup", err.Error()
			return
		}
		// the proposer's blobs are on the DA layer and the retriever has seen them (it records that before it hands
		// the event over); nothing of the third party is on the DA layer
		for i := 0; i < pc.Len(); i++ {
			n.M.VerifHeaderCache().SetDAIncluded(pc.Header(i).Hash().String(), uint64(i+1))
			if len(pc.Txs[i]) > 0 {
				n.M.VerifDataCache().SetDAIncluded(pc.DataAt(i).DACommitment().String(), uint64(i+1))
			}
		}
		errCh := make(chan error, 8)
		ctx, cancel := context.WithCancel(context.Background())
		// the node runs these loops as bare goroutines: a panic below one of them ends the process; it is recovered
		// here only to be recorded (like a halt: what arrived is P2P-only material, see Assume)
		var pmu sync.Mutex
		panicked := ""
		guarded := func(name string, loop func()) {
			go func() {
				defer func() {
					if e := recover(); e != nil {
						pmu.Lock()
						if panicked == "" {
							panicked = fmt.Sprintf("the %s loop panicked (the node process dies): %v", name, e)
						}
						pmu.Unlock()
						n.Fate.Kill()
					}
				}()
				loop()
			}()
		}
		guarded("sync", func() { n.M.SyncLoop(ctx, errCh) })
		guarded("DA-includer", func() { n.M.DAIncluderLoop(ctx, errCh) })
		synctest.Wait()
		defer func() { cancel(); synctest.Wait() }()
		for step, k := range seq {
			if k.Forged {
				n.M.VerifDataInCh() <- block.NewDataEvent{Data: forgedData(pc, k.T, k.Variant), DAHeight: 0}
			} else {
				world.Deliver(n.M, pc, k.Ev, uint64(k.Ev.Idx+1))
			}
			synctest.Wait()
			select {
			case n.M.VerifDAIncluderCh() <- struct{}{}:
			default:
			}
			synctest.Wait()
			select {
			case err := <-errCh:
				res.fatal = fmt.Sprintf("after event %d (%s): %s", step, k, err.Error())
			default:
			}
			pmu.Lock()
			if panicked != "" && res.fatal == "" {
				res.fatal = fmt.Sprintf("after event %d (%s): %s", step, k, panicked)
			}
			pmu.Unlock()
			if res.fatal != "" {
				break // the sync loop has returned; nothing changes any more
			}
		}
		cancel()
		synctest.Wait()
		res = observe(n, env, pc, res.fatal)
	})
	return
}

func observe(n *world.Node, env *world.Env, pc *world.ProducerChain, fatal string) (res orderResult) {
	res.fatal = fatal
	var sb strings.Builder
	st := n.OracleStore()
	h, blocks, fail := world.ReadChain(st, pc.Initial)
	res.height = h
	fmt.Fprintf(&sb, "height=%d;", h)
	bad := func(clause, f string, a ...any) {
		if res.unsafe == "" {
			res.unsafe, res.unsafeM = clause, fmt.Sprintf(f, a...)
		}
	}
	if fail != nil {
		fmt.Fprintf(&sb, "unreadable:%s;", fail.Msg)
		bad("store-readable", "%s", fail.Msg)
	}
	// execution calls first: executing is the earliest irreversible effect
	for _, c := range env.Exec.Log() {
		switch c.Kind {
		case "exec":
			fmt.Fprintf(&sb, "exec(%d,%q);", c.Height, c.Txs)
			i := int(c.Height) - int(pc.Initial)
			if i < 0 || i >= pc.Len() {
				bad("third-party-data-executed", "the execution layer was asked to execute height %d with %q; the proposer's chain has no such block", c.Height, c.Txs)
			} else if !world.TxsEqual(c.Txs, pc.Txs[i]) {
				bad("third-party-data-executed", "the execution layer was asked to execute height %d with transactions %q; the proposer signed %q for that height", c.Height, c.Txs, pc.Txs[i])
			}
		case "final":
			fmt.Fprintf(&sb, "final(%d);", c.Height)
		}
	}
	for i, b := range blocks {
		fmt.Fprintf(&sb, "b%d=%X/%q;", pc.Initial+uint64(i), []byte(b.H.Hash()), txList(b.D))
		if i >= pc.Len() {
			bad("third-party-data-stored", "block %d is stored; the proposer's chain ends at %d", b.H.Height(), pc.Initial+uint64(pc.Len())-1)
			continue
		}
		if !bytes.Equal(b.H.Hash(), pc.Hashes[i]) {
			bad("third-party-data-stored", "stored header %d (%X) is not the proposer's (%X)", b.H.Height(), []byte(b.H.Hash()), pc.Hashes[i])
		}
		if !world.TxsEqual(txList(b.D), pc.Txs[i]) {
			bad("third-party-data-stored", "block %d is stored (and served) with transactions %q under the proposer's header; the proposer signed %q", b.H.Height(), txList(b.D), pc.Txs[i])
		}
	}
	if s, err := st.GetState(context.Background()); err == nil {
		fmt.Fprintf(&sb, "state=%d/%X;", s.LastBlockHeight, s.AppHash)
		if i := int(s.LastBlockHeight) - int(pc.Initial); i >= 0 {
			if i >= pc.Len() || !bytes.Equal(s.AppHash, pc.AppHash[i]) {
				bad("state-is-the-proposers", "recorded state (height %d, root %X) is not the proposer's state at that height", s.LastBlockHeight, s.AppHash)
			}
		}
	}
	di := n.M.GetDAIncludedHeight()
	fmt.Fprintf(&sb, "dainc=%d;", di)
	if di > h {
		bad("da-included-beyond-chain", "DA-included height %d is above the chain height %d", di, h)
	}
	fmt.Fprintf(&sb, "halted=%v", fatal != "")
	res.digest = sb.String()
	return
}

// orderTags computes the history features of a delivery order with forged data events.
func orderTags(pc *world.ProducerChain, seq []tok) []string {
	set := map[string]bool{}
	dH, dD := map[int]bool{}, map[int]bool{}
	complete := func(i int) bool { return dH[i] && (len(pc.Txs[i]) == 0 || dD[i]) }
	for _, k := range seq {
		if !k.Forged {
			if k.Ev.Header {
				dH[k.Ev.Idx] = true
			} else {
				dD[k.Ev.Idx] = true
			}
			continue
		}
		set["p2p-data:"+k.Variant] = true
		switch {
		case k.T >= pc.Len():
			set["target:height-beyond-the-chain"] = true
		case len(pc.Txs[k.T]) == 0:
			set["target:empty-genuine-block"] = true
		default:
			set["target:non-empty-genuine-block"] = true
		}
		if k.T < pc.Len() {
			predecessors := true
			for i := 0; i < k.T; i++ {
				predecessors = predecessors && complete(i)
			}
			switch {
			case predecessors && complete(k.T):
				set["order:forged-data-after-its-height-was-applied"] = true
			case dH[k.T] && !predecessors:
				set["order:genuine-header-of-that-height-arrived-first-while-a-predecessor-is-missing"] = true
			case dH[k.T]:
				set["order:genuine-header-of-that-height-arrived-first"] = true
			default:
				set["order:forged-data-before-the-genuine-header"] = true
			}
		}
	}
	var out []string
	for k := range set {
		out = append(out, k)
	}
	// deterministic
	for i := range out {
		for j := i + 1; j < len(out); j++ {
			if out[j] < out[i] {
				out[i], out[j] = out[j], out[i]
			}
		}
	}
	return out
}

// orderStats are the measured counters of part 2 (summed over the worker processes).
type orderStats struct {
	mu sync.Mutex

	Runs, Baselines, Perms             int64
	Identical, HaltedOnP2PJunk, Behind int64
	PanickedOnP2PJunk                  int64 // among HaltedOnP2PJunk: a loop panicked
	ForgedSpecs                        map[string]int
	// runs in which a forged data event follows the genuine header of its height while a predecessor is missing
	SuccessorFirstRuns                  int64
	EmptyTargetRuns, NonEmptyTargetRuns int64

	samples, samplesH int
}

func (st *orderStats) add(o *orderStats) {
	st.Runs += o.Runs
	st.Baselines += o.Baselines
	st.Perms += o.Perms
	st.Identical += o.Identical
	st.HaltedOnP2PJunk += o.HaltedOnP2PJunk
	st.Behind += o.Behind
	st.PanickedOnP2PJunk += o.PanickedOnP2PJunk
	st.SuccessorFirstRuns += o.SuccessorFirstRuns
	st.EmptyTargetRuns += o.EmptyTargetRuns
	st.NonEmptyTargetRuns += o.NonEmptyTargetRuns
	for k, v := range o.ForgedSpecs {
		st.ForgedSpecs[k] = v
	}
}

type forgedSpec struct {
	T       int
	Variant string
}

// insertions calls f with every sequence made of the genuine order `gen` and k forged events drawn (with repetition,
// ordered) from specs, inserted at every position.
func insertions(gen []tok, specs []forgedSpec, k int, f func(seq []tok)) {
	var rec func(seq []tok, from, left int)
	rec = func(seq []tok, from, left int) {
		if left == 0 {
			f(seq)
			return
		}
		// the next forged event goes to a position >= from (positions of successive forged events are strictly
		// increasing in the resulting sequence, so every sequence is produced exactly once)
		for p := from; p <= len(seq); p++ {
			for _, s := range specs {
				ns := make([]tok, 0, len(seq)+1)
				ns = append(ns, seq[:p]...)
				ns = append(ns, tok{Forged: true, T: s.T, Variant: s.Variant})
				ns = append(ns, seq[p:]...)
				rec(ns, p+1, left-1)
			}
		}
	}
	rec(gen, 0, k)
}

func judgeOrder(r *vf.Run, st *orderStats, pc *world.ProducerChain, seq []tok, base orderResult, res orderResult) {
	tags := orderTags(pc, seq)
	hist := map[string]any{"part": "order", "pattern": pc.Pattern, "seq": seqStrings(seq)}
	desc := fmt.Sprintf("chain genesis+%q, events delivered to the sync loop in the order %s (Hn/Dn = the proposer's header/data of block index n, Fn:v = unsigned P2P data for block index n made by a third party)", pc.Pattern, strings.Join(seqStrings(seq), " "))
	nForged := 0
	succ, emptyT, nonEmptyT := false, false, false
	for _, tg := range tags {
		switch tg {
		case "order:genuine-header-of-that-height-arrived-first-while-a-predecessor-is-missing":
			succ = true
		case "target:empty-genuine-block":
			emptyT = true
		case "target:non-empty-genuine-block":
			nonEmptyT = true
		}
	}
	for _, k := range seq {
		if k.Forged {
			nForged++
		}
	}
	st.mu.Lock()
	st.Runs++
	if succ {
		st.SuccessorFirstRuns++
	}
	if emptyT {
		st.EmptyTargetRuns++
	}
	if nonEmptyT {
		st.NonEmptyTargetRuns++
	}
	st.mu.Unlock()
	class := "identical"
	switch {
	case res.unsafe != "":
		class = "VIOLATION:" + res.unsafe
		r.Report(vf.Violation{Clause: res.unsafe, Tags: tags, Msg: desc + ": " + res.unsafeM + "\n with the third party's data: " + res.digest + "\n without:                     " + base.digest, Cost: len(seq) + 10*nForged, History: hist})
	case res.digest == base.digest:
		st.mu.Lock()
		st.Identical++
		if succ && st.samples < 1 {
			st.samples++
			r.Sample(map[string]any{"case": desc, "result": "end state identical to the same order without the third party's data"})
		}
		st.mu.Unlock()
	case res.fatal != "":
		class = "safe:halted-on-p2p-junk"
		st.mu.Lock()
		st.HaltedOnP2PJunk++
		if strings.Contains(res.fatal, "loop panicked") {
			st.PanickedOnP2PJunk++
		}
		if succ && st.samplesH < 1 {
			st.samplesH++
			r.Sample(map[string]any{"case": desc, "result": "observation (not a violation): the sync loop stopped on the junk P2P data (" + res.fatal + "); everything executed and stored is the proposer's"})
		}
		st.mu.Unlock()
	default:
		class = "safe:behind-without-halt"
		st.mu.Lock()
		st.Behind++
		st.mu.Unlock()
	}
	for _, tg := range tags {
		if strings.HasPrefix(tg, "order:") || strings.HasPrefix(tg, "target:") || strings.HasPrefix(tg, "p2p-data:") {
			r.Outcome("order-part/" + tg + "/" + class)
		}
	}
}

type orderOp struct {
	Pattern string
	K       int
}

// runOrderPlan explores share `shard` of `n` of the plan (genuine orders are dealt out round-robin over the whole plan).
func runOrderPlan(t *testing.T, r *vf.Run, st *orderStats, plan []orderOp, shard, n int) {
	seq := 0
	for _, o := range plan {
		orderPart(t, r, st, o.Pattern, o.K, &seq, shard, n)
	}
}

// orderPart explores pattern pt with k forged events: the genuine orders whose running number is = shard (mod n).
func orderPart(t *testing.T, r *vf.Run, st *orderStats, pt string, k int, jobSeq *int, shard, n int) {
	pc, err := world.BuildChain(pt, 1)
	if err != nil {
		r.EngineError(err.Error())
		return
	}
	var specs []forgedSpec
	for T := 0; T <= pc.Len(); T++ {
		for _, v := range variantsFor(pc, T, r.Thorough()) {
			specs = append(specs, forgedSpec{T, v})
		}
	}
	st.mu.Lock()
	st.ForgedSpecs[fmt.Sprintf("%s/k=%d", pt, k)] = len(specs)
	st.mu.Unlock()
	evs := pc.Events()
	var perms [][]tok
	explore.Permutations(len(evs), func(p []int) {
		gen := make([]tok, len(p))
		for i, x := range p {
			gen[i] = tok{Ev: evs[x]}
		}
		perms = append(perms, gen)
	})
	jobs := make(chan []tok)
	var wg sync.WaitGroup
	for w := 0; w < runtime.GOMAXPROCS(0); w++ {
		wg.Add(1)
		go func() {
			defer wg.Done()
			for gen := range jobs {
				base := runOrder(t, pc, gen)
				st.mu.Lock()
				st.Baselines++
				st.mu.Unlock()
				if base.unsafe != "" {
					r.EngineError(fmt.Sprintf("order part: genuine-only run %v of pattern %q is not the proposer's chain: %s %s", seqStrings(gen), pt, base.unsafe, base.unsafeM))
					continue
				}
				if base.fatal != "" {
					r.EngineError(fmt.Sprintf("order part: genuine-only run %v of pattern %q halts: %s", seqStrings(gen), pt, base.fatal))
					continue
				}
				if !world.HasRepeatedNonEmpty(pt) && base.height != pc.Initial+uint64(pc.Len())-1 {
					// (two blocks with identical transactions: C02's listed stall; the comparison is per order anyway)
					r.EngineError(fmt.Sprintf("order part: genuine-only run %v of pattern %q ends at height %d", seqStrings(gen), pt, base.height))
					continue
				}
				insertions(gen, specs, k, func(seq []tok) {
					judgeOrder(r, st, pc, seq, base, runOrder(t, pc, seq))
				})
			}
		}()
	}
	mine := 0
	for _, gen := range perms {
		j := *jobSeq
		*jobSeq++
		if j%n != shard {
			continue
		}
		mine++
		jobs <- gen
	}
	close(jobs)
	wg.Wait()
	st.mu.Lock()
	st.Perms += int64(mine)
	st.mu.Unlock()
}

// spawnOrderWorkers runs the plan in n worker processes (this test binary re-executed with C03_ORDER_SHARD=i/n; synctest
// bubbles do not run in parallel inside one process). The returned function waits for them and merges their results:
// counters are summed, violations are classified in this process, outcome classes are united.
func spawnOrderWorkers(r *vf.Run, st *orderStats, sst *structStats, n int) (wait func()) {
	dir, err := os.MkdirTemp("", "c03-order")
	if err != nil {
		r.EngineError(err.Error())
		return func() {}
	}
	type job struct {
		cmd *exec.Cmd
		out string
		buf *bytes.Buffer
	}
	var jobs []job
	for i := 0; i < n; i++ {
		out := filepath.Join(dir, fmt.Sprintf("w%d.json", i))
		cmd := exec.Command(os.Args[0], "-test.run", "^TestCheck$", "-test.timeout", "0")
		cmd.Env = append(os.Environ(), fmt.Sprintf("C03_ORDER_SHARD=%d/%d", i, n), "VERIF_SHARD_OUT="+out, "GOMAXPROCS=1")
		buf := &bytes.Buffer{}
		cmd.Stdout, cmd.Stderr = buf, buf
		if err := cmd.Start(); err != nil {
			r.EngineError("cannot start order worker: " + err.Error())
			continue
		}
		jobs = append(jobs, job{cmd, out, buf})
	}
	return func() {
		defer os.RemoveAll(dir)
		for i, j := range jobs {
			err := j.cmd.Wait()
			bz, rerr := os.ReadFile(j.out)
			if err != nil || rerr != nil {
				tail := j.buf.String()
				if len(tail) > 1500 {
					tail = tail[len(tail)-1500:]
				}
				r.EngineError(fmt.Sprintf("order worker %d failed (%v, %v): %s", i, err, rerr, tail))
				continue
			}
			var res struct {
				Cov struct {
					Extra struct {
						OrderStats  *orderStats  `json:"order_stats"`
						StructStats *structStats `json:"struct_stats"`
					}
				}
				Viol      []vf.Violation
				Counts    []int
				Samples   []any
				Outcomes  []string
				EngineErr []string
			}
			if err := json.Unmarshal(bz, &res); err != nil || res.Cov.Extra.OrderStats == nil {
				r.EngineError(fmt.Sprintf("order worker %d: result does not parse: %v", i, err))
				continue
			}
			st.add(res.Cov.Extra.OrderStats)
			if res.Cov.Extra.StructStats != nil {
				sst.add(res.Cov.Extra.StructStats)
			} else {
				r.EngineError(fmt.Sprintf("order worker %d: no counters of part 3 in its result", i))
			}
			for k, v := range res.Viol {
				for c := 0; c < res.Counts[k]; c++ {
					r.Report(v)
				}
			}
			for _, o := range res.Outcomes {
				r.Outcome(o)
			}
			if i < 3 {
				for _, s := range res.Samples {
					r.Sample(s)
				}
			}
			for _, e := range res.EngineErr {
				r.EngineError(fmt.Sprintf("order worker %d: %s", i, e))
			}
		}
	}
}

// replayOrder re-executes one recorded history of part 2.
func replayOrder(t *testing.T, r *vf.Run, pattern string, seqS []string) {
	pc, err := world.BuildChain(pattern, 1)
	if err != nil {
		r.EngineError(err.Error())
		return
	}
	var seq, gen []tok
	for _, s := range seqS {
		k, err := parseTok(s)
		if err != nil {
			r.EngineError(err.Error())
			return
		}
		seq = append(seq, k)
		if !k.Forged {
			gen = append(gen, k)
		}
	}
	st := &orderStats{ForgedSpecs: map[string]int{}}
	judgeOrder(r, st, pc, seq, runOrder(t, pc, gen), runOrder(t, pc, seq))
}
