package c03

import (
	"bytes"
	"fmt"
	"os"
	"runtime"
	"strings"
	"testing"
	"testing/synctest"
	"time"

	"google.golang.org/protobuf/proto"

	"github.com/evstack/ev-node/types"

	"verif/harness/vf"
	"verif/harness/world"
)

// C03 — only material signed by the genesis proposer's key is ever accepted.
// A full node with ALL ingress loops running unmodified (DA retrieve loop, P2P header/data store loops, sync loop,
// DA-includer loop) in a synctest bubble receives the genuine chain plus one adversarial item from a catalogue built
// WITHOUT the proposer's private key, for every item × target height × channel × insertion position.
// Oracle: differential — the end state equals the run without the adversary.

var attacker = world.NewFixedSigner("attacker")

type item struct {
	Kind    string
	Channel string // da | p2p-header | p2p-data
	hdr     *types.SignedHeader
	data    *types.Data       // companion data for a forged non-empty block (P2P) ...
	sdata   *types.SignedData // ... or as signed data on the DA layer
	blob    []byte            // raw DA blob (junk)
	blobs   [][]byte          // part 3: a batch of raw DA blobs at one DA height
	light   bool              // include in the light-node admission check
}

func sign(h *types.SignedHeader, s *world.FixedSigner) {
	payload, err := types.DefaultSignaturePayloadProvider(&h.Header)
	if err != nil {
		panic(err)
	}
	sig, err := s.Sign(payload)
	if err != nil {
		panic(err)
	}
	h.Signature = sig
}

// forge builds a header for block index T of the chain under the PROPOSER'S ADDRESS with the ATTACKER'S key.
func forge(pc *world.ProducerChain, T int, mut func(h *types.SignedHeader)) *types.SignedHeader {
	h := pc.Header(T)
	h.BaseHeader.Time++ // another block at the same height
	h.Signer = types.Signer{PubKey: attacker.Pub(), Address: append([]byte(nil), h.ProposerAddress...)}
	if mut != nil {
		mut(h)
	}
	sign(h, attacker)
	return h
}

func evilData(pc *world.ProducerChain, h *types.SignedHeader) *types.Data {
	return &types.Data{Metadata: &types.Metadata{ChainID: h.ChainID(), Height: h.Height(), Time: h.BaseHeader.Time}, Txs: types.Txs{types.Tx("evil-tx")}}
}

func catalogue(pc *world.ProducerChain, T int) []item {
	var out []item
	emptyHash := (&types.Data{}).DACommitment()
	// self-consistent forged EMPTY block
	fe := forge(pc, T, func(h *types.SignedHeader) { h.DataHash = emptyHash })
	// self-consistent forged NON-EMPTY block (+ its data)
	var fd *types.Data
	fn := forge(pc, T, func(h *types.SignedHeader) {
		fd = evilData(pc, h)
		h.DataHash = fd.DACommitment()
	})
	fd.Metadata.Time = fn.BaseHeader.Time
	dbz, _ := fd.MarshalBinary()
	dsig, _ := attacker.Sign(dbz)
	fsd := &types.SignedData{Data: *fd, Signature: dsig, Signer: types.Signer{PubKey: attacker.Pub(), Address: fn.ProposerAddress}}
	for _, ch := range []string{"da", "p2p-header"} {
		out = append(out, item{Kind: "forged-empty-block(attacker key under proposer address)", Channel: ch, hdr: fe, light: true})
		out = append(out, item{Kind: "forged-nonempty-block(attacker key under proposer address)", Channel: ch, hdr: fn, data: fd, sdata: fsd, light: true})
		// altered copies of the genuine header, re-signed by the attacker
		out = append(out, item{Kind: "genuine-header-app-hash-altered-resigned", Channel: ch, hdr: forge(pc, T, func(h *types.SignedHeader) { h.AppHash = bytes.Repeat([]byte{7}, 32) }), light: true})
		out = append(out, item{Kind: "genuine-header-wrong-chain-id-resigned", Channel: ch, hdr: forge(pc, T, func(h *types.SignedHeader) { h.BaseHeader.ChainID = "other-chain" }), light: true})
		out = append(out, item{Kind: "genuine-header-last-hash-altered-resigned", Channel: ch, hdr: forge(pc, T, func(h *types.SignedHeader) { h.LastHeaderHash = bytes.Repeat([]byte{9}, 32) }), light: true})
		// unsigned / garbage-signed headers that link correctly, carrying the PROPOSER'S public key (it is public)
		un := pc.Header(T)
		un.BaseHeader.Time++
		un.Signature = nil
		out = append(out, item{Kind: "unsigned-header-linking-correctly", Channel: ch, hdr: un, light: true})
		gs := pc.Header(T)
		gs.BaseHeader.Time++
		gs.Signature = bytes.Repeat([]byte{0xAB}, 64)
		out = append(out, item{Kind: "garbage-signed-header-linking-correctly", Channel: ch, hdr: gs, light: true})
		// honest third party: its own key under its own address
		out = append(out, item{Kind: "header-by-another-signer-under-its-own-address", Channel: ch, hdr: forge(pc, T, func(h *types.SignedHeader) {
			h.ProposerAddress = attacker.Addr()
			h.Signer.Address = attacker.Addr()
			h.DataHash = emptyHash
		}), light: true})
	}
	// identity matrix: every combination of (header proposer address, signer address, carried public key) over
	// {proposer's, attacker's}, always signed with the attacker's key (the only key the adversary has), for an
	// otherwise valid next block. Only the all-proposer identity would be genuine, and that one cannot be signed.
	proposerPub := pc.Header(0).Signer.PubKey
	proposerAddr := pc.Header(0).ProposerAddress
	for _, pa := range []string{"P", "A"} {
		for _, sa := range []string{"P", "A"} {
			for _, pk := range []string{"A", "P"} {
				if pa == "P" && sa == "P" && pk == "A" {
					continue // = forged-empty-block above
				}
				pa, sa, pk := pa, sa, pk
				h := forge(pc, T, func(h *types.SignedHeader) {
					h.DataHash = emptyHash
					h.ProposerAddress = map[string][]byte{"P": proposerAddr, "A": attacker.Addr()}[pa]
					h.Signer.Address = map[string][]byte{"P": proposerAddr, "A": attacker.Addr()}[sa]
					if pk == "P" {
						h.Signer.PubKey = proposerPub
					}
				})
				for _, ch := range []string{"da", "p2p-header"} {
					out = append(out, item{Kind: fmt.Sprintf("mixed-identity-empty-block(proposer-address=%s,signer-address=%s,public-key=%s; P=proposer's A=attacker's)", pa, sa, pk), Channel: ch, hdr: h, light: true})
				}
			}
		}
	}
	// exact copies of the genuine items (same hash / same commitment: every public field copied) whose signature is
	// replaced — anybody can make these from public data; they must never count as the proposer's material
	cp := pc.Header(T)
	cp.Signature = bytes.Repeat([]byte{0xCD}, 64)
	out = append(out, item{Kind: "exact-copy-of-genuine-header-with-garbage-signature", Channel: "da", hdr: cp, light: true})
	cp2 := pc.Header(T)
	cp2.Signature = nil
	out = append(out, item{Kind: "exact-copy-of-genuine-header-without-signature", Channel: "da", hdr: cp2, light: true})
	if pc.DatBlobs[T] != nil {
		var gsd types.SignedData
		if err := gsd.UnmarshalBinary(pc.DatBlobs[T]); err == nil {
			gsd.Signature = bytes.Repeat([]byte{0xCD}, 64)
			out = append(out, item{Kind: "exact-copy-of-genuine-signed-data-with-garbage-signature", Channel: "da", sdata: &gsd})
		}
	}
	// forged signed data alone on the DA layer, junk data on P2P
	out = append(out, item{Kind: "forged-signed-data(attacker key under proposer address)", Channel: "da", sdata: fsd})
	out = append(out, item{Kind: "junk-p2p-data-with-plausible-metadata", Channel: "p2p-data", data: fd})
	// unsigned P2P data for the height of the GENUINE block T (empty or not): the third party's own transactions,
	// metadata copied from the genuine header / its own metadata (part 2 explores these in every delivery order)
	for _, v := range []string{"metadata-copied-from-genuine-header/own-txs", "own-metadata/own-txs"} {
		out = append(out, item{Kind: "unsigned-p2p-data-for-genuine-height(" + v + ")", Channel: "p2p-data", data: forgedData(pc, T, v)})
	}
	// malformed bytes on the DA layer
	hb := pc.HdrBlobs[T]
	for _, cut := range []int{1, len(hb) / 2, len(hb) - 1} {
		out = append(out, item{Kind: fmt.Sprintf("truncated-genuine-header-blob(%d/%d)", cut, len(hb)), Channel: "da", blob: hb[:cut]})
	}
	if db := pc.DatBlobs[T]; db != nil {
		for _, cut := range []int{1, len(db) / 2, len(db) - 1} {
			out = append(out, item{Kind: fmt.Sprintf("truncated-genuine-data-blob(%d/%d)", cut, len(db)), Channel: "da", blob: db[:cut]})
		}
	}
	out = append(out, item{Kind: "garbage-bytes", Channel: "da", blob: []byte{0xff, 0x00, 0x12, 0x0a, 0x80, 0x80, 0x80, 0x80, 0x80, 0x80, 0x80, 0x80, 0x80, 0x01}})
	return out
}

func hdrBlob(h *types.SignedHeader) []byte {
	hp, err := h.ToProto()
	if err != nil {
		panic(err)
	}
	bz, err := proto.Marshal(hp)
	if err != nil {
		panic(err)
	}
	return bz
}

type result struct {
	digest string
	fatal  []string
	stored string // failure of the "every stored header verifies under the genesis key" clause
	// foreign: something the node executed / stored / recorded as state is not the proposer's (same clauses as part 2);
	// a halt on P2P-borne junk must not mask it
	foreign string
	// panics of the node's loops (the node runs them as bare goroutines: the process is dead)
	panics []world.LoopPanic
}

// run delivers the genuine chain over the DA layer (one DA height per block) and injects `it` (nil = baseline)
// at position pos relative to target block T: "future" (before block T-1 arrived), "next" (just before block T),
// "past" (after block T was applied), "successor-header-first" (the genuine header of block T is on the DA layer
// ahead of block T-1 and has been retrieved; then the item; then blocks T-1, T, ... as usual).
func run(t *testing.T, pc *world.ProducerChain, it *item, T int, pos string, genuineVia string) (res result) {
	synctest.Test(t, func(t *testing.T) {
		env := world.NewEnv()
		hs := &world.P2PStore[*types.SignedHeader]{}
		ds := &world.P2PStore[*types.Data]{}
		f, err := world.StartFullL2Guarded(world.Params{InitialHeight: pc.Initial, DAStartHeight: 1}, env, nil, hs, ds, nil)
		if err != nil {
			res.fatal = []string{"startup: " + err.Error()}
			return
		}
		defer f.Stop()
		daH := uint64(0)
		genuine := func(i int) {
			if genuineVia == "p2p" {
				// the proposer's blobs are NOT on the DA layer (yet); the node syncs over P2P
				if hs.Height() < pc.Initial+uint64(i) {
					hs.Append1(pc.Header(i))
				}
				if ds.Height() < pc.Initial+uint64(i) {
					ds.Append1(pc.DataAt(i))
				}
				daH++
				env.DA.SetTip(daH)
				f.TickP2P()
				f.TickDA()
				f.TickIncluder()
				return
			}
			daH++
			env.DA.Place(daH, pc.HdrBlobs[i])
			if pc.DatBlobs[i] != nil {
				env.DA.Place(daH, pc.DatBlobs[i])
			}
			f.TickDA()
			f.TickIncluder()
		}
		inject := func() {
			if it == nil {
				return
			}
			switch it.Channel {
			case "da":
				daH++
				if it.blob != nil {
					env.DA.Place(daH, it.blob)
				}
				for _, b := range it.blobs {
					env.DA.Place(daH, b)
				}
				if it.hdr != nil {
					env.DA.Place(daH, hdrBlob(it.hdr))
				}
				if it.sdata != nil {
					bz, err := it.sdata.MarshalBinary()
					if err != nil {
						panic(err)
					}
					env.DA.Place(daH, bz)
				}
				f.TickDA()
			case "p2p-header", "p2p-data":
				// the P2P stores are contiguous: genuine items below the target, the adversary's at the target
				for i := 0; i < T; i++ {
					if hs.Height() < pc.Initial+uint64(i) {
						hs.Append1(pc.Header(i))
					}
					if ds.Height() < pc.Initial+uint64(i) {
						ds.Append1(pc.DataAt(i))
					}
				}
				if it.hdr != nil && hs.Height() < it.hdr.Height() {
					hs.Append1(it.hdr)
				}
				if it.data != nil && ds.Height() < it.data.Height() {
					ds.Append1(it.data)
				}
				f.TickP2P()
			}
			f.TickIncluder()
		}
		for i := 0; i < pc.Len(); i++ {
			if pos == "successor-header-first" && i == T-1 {
				daH++
				env.DA.Place(daH, pc.HdrBlobs[T])
				f.TickDA()
				f.TickIncluder()
				inject()
			}
			if pos == "future" && i == T-1 {
				inject()
			}
			if pos == "next" && i == T {
				inject()
			}
			genuine(i)
			if pos == "past" && i == T {
				inject()
			}
		}
		f.TickDA()
		f.TickP2P()
		f.TickIncluder()
		res.digest = f.Digest(pc.Initial)
		res.fatal = f.Fatal
		res.panics = f.Panics()
		if o := observe(f.N, env, pc, ""); o.unsafe != "" {
			res.foreign = o.unsafe + ": " + o.unsafeM
		}
		// every stored header verifies under the genesis proposer's key
		_, blocks, _ := world.ReadChain(f.N.OracleStore(), pc.Initial)
		proposer := f.N.Signer
		for _, b := range blocks {
			payload, _ := types.DefaultSignaturePayloadProvider(&b.H.Header)
			ok, err := proposer.Pub().Verify(payload, b.H.Signature)
			if err != nil || !ok || !bytes.Equal(types.KeyAddress(b.H.Signer.PubKey), f.N.Genesis.ProposerAddress) {
				res.stored = fmt.Sprintf("stored header %d is not signed by the genesis proposer's key", b.H.Height())
				break
			}
		}
	})
	return
}

// part1 holds the counters of the catalogue part.
type part1 struct {
	evals, lightEvals int64
	p2pHalts, samples int
	p2pPanics         int
}

// baselines of part 1 for one producer chain: genuine traffic over the DA layer / over P2P only, and per target the
// schedule in which the genuine header of block T is retrieved from the DA layer ahead of block T-1.
type bases struct {
	da, p2p result
	ahead   map[int]result
}

func synced(pc *world.ProducerChain, b result, dainc int) bool {
	return len(b.fatal) == 0 && len(b.panics) == 0 && strings.Contains(b.digest, fmt.Sprintf("height=%d;", pc.Len())) && strings.Contains(b.digest, fmt.Sprintf("dainc=%d;", dainc))
}

func mkBases(t *testing.T, r *vf.Run, pt string, pc *world.ProducerChain) (bs bases, ok bool) {
	bs.da = run(t, pc, nil, 0, "", "da")
	bs.p2p = run(t, pc, nil, 0, "", "p2p")
	if !synced(pc, bs.p2p, 0) {
		r.EngineError("baseline run over P2P (nothing of the proposer on the DA layer) is not 'synced, nothing DA-included': " + bs.p2p.digest)
		return bs, false
	}
	if !synced(pc, bs.da, pc.Len()) {
		r.EngineError("baseline run without adversary does not reach the producer chain: " + bs.da.digest + " " + strings.Join(bs.da.fatal, ";"))
		return bs, false
	}
	if base2 := run(t, pc, nil, 0, "", "da"); base2.digest != bs.da.digest {
		r.EngineError("baseline is not deterministic")
	}
	bs.ahead = map[int]result{}
	for T := 1; T < pc.Len(); T++ {
		b := run(t, pc, nil, T, "successor-header-first", "da")
		if !synced(pc, b, pc.Len()) {
			r.EngineError(fmt.Sprintf("baseline run of %q with the genuine header of block index %d retrieved ahead of its predecessor does not reach the producer chain: %s %s", pt, T, b.digest, strings.Join(b.fatal, ";")))
			return bs, false
		}
		bs.ahead[T] = b
	}
	return bs, true
}

func applicable(it *item, T int, pos, via string) bool {
	if (pos == "future" && T < 2) || ((pos == "next" || pos == "successor-header-first") && T < 1) {
		return false
	}
	if via == "p2p" && (it.Channel != "da" || pos == "successor-header-first") {
		return false // the P2P stores hold the genuine chain in this variant (contiguous, in order); only DA-borne items are injected
	}
	return true
}

// evalFull runs one full-node case of part 1 and judges it.
func evalFull(t *testing.T, r *vf.Run, p1 *part1, pt string, pc *world.ProducerChain, bs bases, it item, T int, pos, via string) {
	base := bs.da
	if via == "p2p" {
		base = bs.p2p
	}
	if pos == "successor-header-first" {
		base = bs.ahead[T]
	}
	p1.evals++
	res := run(t, pc, &it, T, pos, via)
	tags := []string{it.Channel + ":" + it.Kind, "position:" + pos}
	hist := map[string]any{"part": "catalogue", "pattern": pt, "T": T, "kind": it.Kind, "channel": it.Channel, "pos": pos, "genuine_via": via}
	desc := fmt.Sprintf("chain genesis+%q (genuine traffic over %s), %s for height %d over %s, position %s", pt, via, it.Kind, pc.Initial+uint64(T), it.Channel, pos)
	r.Outcome(fmt.Sprintf("%s/%s/%s/%v", it.Kind, it.Channel, via, res.digest == base.digest))
	v, p2pHalt := judge(res, base, it.Channel == "da")
	if v == nil {
		if p2pHalt {
			p1.p2pHalts++
			if len(res.panics) > 0 {
				p1.p2pPanics++
			}
		} else if p1.evals%311 == 0 && p1.samples < 3 {
			p1.samples++
			r.Sample(map[string]any{"case": desc, "result": "end state identical to the run without the adversary"})
		}
		return
	}
	for _, p := range res.panics {
		tags = append(tags, "loop-panic:"+p.Loop)
	}
	r.Report(vf.Violation{Clause: v.clause, Tags: tags, Msg: desc + ": " + v.msg, Cost: 1, History: hist})
}

type verdict struct{ clause, msg string }

// judge applies the oracle of parts 1 and 3 to one full-node run. da = the adversarial material arrived over the DA
// layer (then a halt or a loop panic is a violation; over P2P only it is an observation: p2pHalt).
func judge(res, base result, da bool) (v *verdict, p2pHalt bool) {
	differs := "\n with adversary: " + res.digest + "\n without:        " + base.digest
	if res.stored != "" {
		return &verdict{"stored-chain-signed-by-proposer", res.stored}, false
	}
	if res.digest != base.digest && res.foreign != "" {
		// differs from the baseline AND contains something the proposer never signed (not merely halted / behind)
		return &verdict{"adversarial-material-changes-outcome", res.foreign + differs}, false
	}
	if len(res.panics) > 0 {
		// the end state may well equal the baseline (the loop can die after everything was synced): judged first
		if !da {
			return nil, true
		}
		return &verdict{"third-party-da-material-halts-node", "the node process died (and dies again on the same blob after every restart): " + res.panics[0].String()}, false
	}
	if res.digest == base.digest {
		return nil, false
	}
	if len(res.fatal) > 0 {
		if !da {
			return nil, true
		}
		return &verdict{"third-party-da-material-halts-node", "the node stopped with a fatal error: " + res.fatal[0]}, false
	}
	return &verdict{"adversarial-material-changes-outcome", differs}, false
}

func TestCheck(t *testing.T) {
	r := vf.Start("C03", "exploration")
	patterns := vf.Pick(r, []string{"ab", "ea"}, []string{"ab", "ea", "ae", "ee", "abe", "eab", "bea"})
	// part 2: (pattern, number of forged P2P data events)
	var orderPlan []orderOp
	for _, pt := range vf.Pick(r, []string{"ee", "ea", "ae", "ab"}, world.Patterns("eab", 2)) {
		orderPlan = append(orderPlan, orderOp{pt, 1})
	}
	for _, pt := range vf.Pick(r, []string{"e", "a"}, []string{"e", "a", "ee", "ea", "ae", "ab"}) {
		orderPlan = append(orderPlan, orderOp{pt, 2})
	}
	if r.Thorough() {
		for _, pt := range world.Patterns("eab", 3) {
			if strings.Count(pt, "e") >= 1 { // at most two non-empty blocks: at most 6 genuine events, 720 orders
				orderPlan = append(orderPlan, orderOp{pt, 1})
			}
		}
	}
	positions := []string{"future", "next", "past", "successor-header-first"}
	// part 3: structurally incomplete items naming the proposer (structured_test.go)
	splan := sPlan{
		Patterns:     patterns,
		B:            vf.Pick(r, sBounds{KDel: 2, KKeep: 2, KBodyDel: 1, KBodyKeep: 1}, sBounds{KDel: 3, KKeep: 3, KBodyDel: 2, KBodyKeep: 2}),
		Batch:        250,
		P2PPositions: positions,
	}
	sst := newStructStats()
	if sp := os.Getenv("C03_ORDER_SHARD"); sp != "" {
		// worker process of parts 2 and 3: explore one share of the plans and hand the raw result to the parent
		var i, n int
		if _, err := fmt.Sscanf(sp, "%d/%d", &i, &n); err != nil || n < 1 {
			r.EngineError("bad C03_ORDER_SHARD " + sp)
		}
		st := &orderStats{ForgedSpecs: map[string]int{}}
		if n >= 1 {
			runStructuredPlan(t, r, sst, splan, positions, i, n)
			runOrderPlan(t, r, st, orderPlan, i, n)
		}
		r.Finish(vf.Coverage{Extra: map[string]any{"order_stats": st, "struct_stats": sst}})
		return
	}
	r.Assume = []string{
		"the adversary has the proposer's public key and address, the chain so far, and its own key; it cannot sign with the proposer's key",
		"part 1: genuine traffic arrives over the DA layer (one DA height per block) or, in a second variant, over P2P only with nothing of the proposer on the DA layer; the adversarial item arrives over the DA layer, the P2P header store or the P2P data store, before block T-1, just before block T, after block T, or (DA-borne genuine traffic) after the genuine header of block T was retrieved from the DA layer ahead of block T-1",
		"part 2 injects at the sync loop's two input channels: the only third-party material that reaches them without an admission test is unsigned P2P data (DataStoreRetrieveLoop forwards every stored item; part 1 runs that loop unmodified); headers and DA data pass isUsingExpectedSingleSequencer / isValidSignedData first (part 1); every total order of the genuine events is possible at this level because four independent producers feed two buffered channels and select picks either; each event is fully processed before the next; the proposer's blobs are marked as seen on the DA layer",
		"a halt (or falling behind) caused by junk arriving over P2P only is recorded as an observation, not as a violation (the property's no-halt clause names third-party material on the DA layer); executing, storing or finalizing anything the proposer did not sign is a violation on every channel",
		"the node runs its ingress loops (RetrieveLoop, the two P2P store loops, SyncLoop, DAIncluderLoop) as bare goroutines, so a panic below any of them ends the process and recurs on the same DA blob after every restart; the harness recovers such a panic only to report it: caused by DA-borne material it is the violation third-party-da-material-halts-node (tag loop-panic:<loop> plus the shape of the item), caused by P2P-only material it is an observation like any other halt",
		"part 3 derives its items from the protobuf form of the proposer's PUBLISHED blobs (populated fields only), the proposer's public address and key and the attacker's own key; forms that decode to exactly the genuine item are left out (they ARE the genuine item), and so are unsigned P2P data forms that keep the complete genuine transaction list (the signed header's data hash covers the transaction list only, so they ARE the proposer's transaction data; only the moment at which the block can be applied changes); forms whose removed nodes lie outside the signed bytes (signer parts, default-valued nodes) still carry a fitting signature of the proposer's key: they are delivered in batches of their own and only 'does not halt the node' is demanded for them (accepting material that is signed with the proposer's key is no violation); a P2P store double serves an item only under the item's own height, as go-header's store does, so only forms that decode to the target height are delivered over P2P",
		"light-node admission is decided by the two calls go-header makes on a received header: hdr.Validate() and trusted.Verify(hdr)",
	}
	p1 := &part1{}
	if r.ReplayPath() != "" {
		var h struct {
			Part    string   `json:"part"`
			Pattern string   `json:"pattern"`
			Seq     []string `json:"seq"`
			T       int      `json:"T"`
			Kind    string   `json:"kind"`
			Channel string   `json:"channel"`
			Pos     string   `json:"pos"`
			Via     string   `json:"genuine_via"`
			Light   bool     `json:"light"`
			Items   []sItem  `json:"items"`
		}
		if _, err := r.LoadReplay(&h); err != nil {
			r.EngineError(err.Error())
		} else if h.Part == "order" {
			replayOrder(t, r, h.Pattern, h.Seq)
		} else if h.Part == "structured" {
			if pc, err := world.BuildChain(h.Pattern, 1); err != nil {
				r.EngineError(err.Error())
			} else if len(h.Items) == 0 {
				r.EngineError("replay: no items in the recorded history")
			} else if h.Light {
				lightStructured(r, sst, pc, h.T, &sGen{Items: h.Items}, identOf(pc))
			} else if bs, ok := mkBases(t, r, h.Pattern, pc); ok {
				evalStructuredOpts(t, r, sst, pc, bs, identOf(pc), h.Items, h.Channel, h.T, h.Pos, h.Via, true)
			}
		} else if pc, err := world.BuildChain(h.Pattern, 1); err != nil {
			r.EngineError(err.Error())
		} else {
			found := false
			for _, it := range catalogue(pc, h.T) {
				if it.Kind != h.Kind {
					continue
				}
				if h.Light {
					found = true
					lightCase(r, p1, h.Pattern, pc, it, h.T)
					break
				}
				if it.Channel == h.Channel {
					if bs, ok := mkBases(t, r, h.Pattern, pc); ok {
						evalFull(t, r, p1, h.Pattern, pc, bs, it, h.T, h.Pos, h.Via)
					}
					found = true
					break
				}
			}
			if !found {
				r.EngineError("replay: no such catalogue item: " + h.Kind + " over " + h.Channel)
			}
		}
		r.Finish(vf.Coverage{Evaluations: 1, DistinctNontrivial: 1})
		return
	}
	// part 2 runs in worker processes while this process does part 1
	st := &orderStats{ForgedSpecs: map[string]int{}}
	var waitOrder func()
	workers := runtime.NumCPU()
	if os.Getenv("VERIF_NOSHARD") == "" && workers > 1 {
		waitOrder = spawnOrderWorkers(r, st, sst, workers)
	}
	for _, pt := range patterns {
		pc, err := world.BuildChain(pt, 1)
		if err != nil {
			r.EngineError(err.Error())
			continue
		}
		bs, ok := mkBases(t, r, pt, pc)
		if !ok {
			continue
		}
		for T := 0; T < pc.Len(); T++ {
			// part 3, light-node admission of every structurally incomplete header form (the full-node runs of part 3
			// are dealt out over the worker processes)
			if g, err := structuredItems(pc, T, splan.B); err != nil {
				r.EngineError("structured items: " + err.Error())
			} else {
				lightStructured(r, sst, pc, T, g, identOf(pc))
			}
			for _, it := range catalogue(pc, T) {
				it := it
				if it.light && it.hdr != nil && T > 0 {
					lightCase(r, p1, pt, pc, it, T)
				}
				for _, pos := range positions {
					for _, via := range []string{"da", "p2p"} {
						if applicable(&it, T, pos, via) {
							evalFull(t, r, p1, pt, pc, bs, it, T, pos, via)
						}
					}
				}
			}
		}
	}
	// part 2
	if waitOrder != nil {
		waitOrder()
	} else {
		runStructuredPlan(t, r, sst, splan, positions, 0, 1)
		runOrderPlan(t, r, st, orderPlan, 0, 1)
	}
	var planText []string
	for _, o := range orderPlan {
		planText = append(planText, fmt.Sprintf("%s/k=%d", o.Pattern, o.K))
	}
	if st.SuccessorFirstRuns == 0 || st.EmptyTargetRuns == 0 || st.NonEmptyTargetRuns == 0 {
		r.EngineError("order part is vacuous: no run with a forged data event after the genuine header of its height while a predecessor is missing / for an empty / for a non-empty genuine block")
	}
	if sst.KeylessProposerAddressData == 0 || sst.DAScans == 0 || sst.P2PHeaderRuns == 0 || sst.BySigner["signer=absent"] == 0 || sst.BySigner["signer(address=proposer's,pub_key=attacker's)"] == 0 {
		r.EngineError(fmt.Sprintf("part 3 is vacuous: signed-data forms with txs+metadata naming the proposer's address without a key: %d, DA scans: %d, P2P header runs: %d, signer shapes: %v", sst.KeylessProposerAddressData, sst.DAScans, sst.P2PHeaderRuns, sst.BySigner))
	}
	_ = time.Now
	p3runs := sst.DAScans + sst.P2PHeaderRuns + sst.P2PDataRuns
	r.Finish(vf.Coverage{
		Evaluations: p1.evals + p1.lightEvals + st.Runs + st.Baselines + p3runs + sst.Baselines + sst.LightPairs, DistinctNontrivial: int64(r.DistinctOutcomes()), States: p1.evals + st.Runs + p3runs, Transitions: p1.evals + st.Runs + p3runs,
		Rule: "part 1: every (producer chain pattern, target height, catalogue item, channel, insertion position) combination runs the full node with all ingress loops; plus every (catalogue header, trusted head) pair for light-node admission; distinct = distinct (item kind, channel, identical-to-baseline?) classes. " +
			"part 2: for every listed (pattern, k): every permutation of the genuine header/data events of the chain x every way to insert k unsigned third-party P2P data events (target = every block of the chain, empty or not, and one height beyond it; variants = third party's own transactions with metadata copied from the genuine header or its own, altered copies of the genuine transaction list, in the thorough tier also a wrong chain id and another block's genuine transactions) at every position, delivered to the real SyncLoop + DAIncluderLoop; distinct = (order feature, target feature, verdict class). " +
			"part 3: structurally incomplete protobuf naming the proposer, built without its private key: for every (pattern, target block T) the genuine signed-header blob and signed-data blob of T with every set of <= k_delete populated nodes of the protobuf tree removed (a sub-message removed or left present-but-empty) and every minimal message of <= k_keep leaves, signature/signer as published (stale; includes the address-only, key-only, empty-signer and signer-less shapes under the proposer's identity); plus every body form (complete, absent, empty, <= k_body_delete nodes removed, minimal of <= k_body_keep leaves) x header proposer address {as published, attacker's} x every signer shape (absent, or address in {absent, proposer's, attacker's} x pub_key in {absent, proposer's, attacker's}) signed by the attacker's key over the bytes the node verifies; every blob is delivered over the DA layer at every position x both genuine-traffic variants (batches of one DA height, a deviating batch is split down to every single blob), every header form that decodes to the target height also through the P2P header store and every incomplete unsigned Data form through the P2P data store (one per run); every decodable header form is put to the light-node admission calls; a panic of any node loop on DA-borne material is a violation",
		Exhaustive: true,
		Bounds: map[string]any{"patterns": patterns, "positions": positions, "full_node_runs": p1.evals, "light_node_pairs": p1.lightEvals,
			"structured_k_delete": splan.B.KDel, "structured_k_keep": splan.B.KKeep, "structured_k_body_delete": splan.B.KBodyDel, "structured_k_body_keep": splan.B.KBodyKeep,
			"structured_source_nodes": sst.Nodes, "structured_items(pattern/target)": sst.Blobs, "structured_items_by_form_and_mode": sst.ByMode, "structured_items_by_signer_shape": sst.BySigner, "structured_forms_left_out_because_they_decode_to_exactly_the_genuine_item": sst.Reencodings, "structured_p2p_data_forms_left_out_because_they_keep_the_complete_genuine_tx_list": sst.GenuineTxLists,
			"structured_signed_data_forms_with_txs_and_metadata_naming_proposer_address_without_key": sst.KeylessProposerAddressData,
			"structured_da_batch_size": splan.Batch, "structured_da_scans(full-node runs)": sst.DAScans, "structured_da_blob_deliveries(blob x position x variant)": sst.DABlobDeliveries, "structured_da_batches_split": sst.Splits,
			"structured_p2p_positions": splan.P2PPositions, "structured_p2p_header_runs": sst.P2PHeaderRuns, "structured_p2p_data_runs": sst.P2PDataRuns, "structured_baseline_runs": sst.Baselines,
			"structured_header_forms_decodable(light-node pairs)": sst.LightPairs,
			"order_part_plan(pattern/forged events)": planText, "order_part_forged_specs(target x variant)": st.ForgedSpecs, "order_part_genuine_orders": st.Perms, "order_part_runs_with_forged_data": st.Runs, "order_part_baseline_runs": st.Baselines, "order_part_worker_processes": workers,
			"order_part_runs_forged_data_after_genuine_header_while_predecessor_missing": st.SuccessorFirstRuns, "order_part_runs_target_empty_block": st.EmptyTargetRuns, "order_part_runs_target_non_empty_block": st.NonEmptyTargetRuns},
		Extra: map[string]any{"observation_p2p_only_junk_halts_node": p1.p2pHalts, "observation_p2p_only_junk_panics_a_loop": p1.p2pPanics,
			"structured_observation_p2p_only_junk_halts_node": sst.P2PHalts, "structured_observation_p2p_only_junk_panics_a_loop": sst.P2PPanics, "structured_observation_light_admission_calls_panic": sst.LightPanics, "structured_observation_runs_where_reencodings_with_fitting_proposer_signature_changed_the_outcome": sst.ProposerSignedTreatedDifferently,
			"order_part_identical_to_baseline": st.Identical, "order_part_observation_halted_on_p2p_junk_but_safe": st.HaltedOnP2PJunk, "order_part_observation_of_these_a_loop_panicked": st.PanickedOnP2PJunk, "order_part_observation_behind_without_halt_but_safe": st.Behind},
	})
}

// lightCase: the two calls go-header makes on a received header.
func lightCase(r *vf.Run, p1 *part1, pt string, pc *world.ProducerChain, it item, T int) {
	p1.lightEvals++
	trusted := pc.Header(T - 1)
	if it.hdr.Validate() == nil && trusted.Verify(it.hdr) == nil {
		r.Report(vf.Violation{Clause: "light-node-admission", Tags: []string{"light:" + it.Kind}, Msg: fmt.Sprintf("a header-only node whose trusted head is the genuine header %d accepts %s for height %d (Validate()==nil and Verify()==nil)", trusted.Height(), it.Kind, it.hdr.Height()), Cost: 1, History: map[string]any{"part": "catalogue", "pattern": pt, "T": T, "kind": it.Kind, "light": true}})
	}
}
