package c03

import (
	"bytes"
	"fmt"
	"strings"
	"testing"
	"testing/synctest"
	"time"

	"google.golang.org/protobuf/proto"

	"github.com/evstack/ev-node/types"

	"verif/harness/vf"
	"verif/harness/world"
)

// C03 — only material signed by the genesis proposer's key is ever accepted.
// A full node with ALL ingress loops running unmodified (DA retrieve loop, P2P header/data store loops, sync loop,
// DA-includer loop) in a synctest bubble receives the genuine chain plus one adversarial item from a catalogue built
// WITHOUT the proposer's private key, for every item × target height × channel × insertion position.
// Oracle: differential — the end state equals the run without the adversary.

var attacker = world.NewFixedSigner("attacker")

type item struct {
	Kind    string
	Channel string // da | p2p-header | p2p-data
	hdr     *types.SignedHeader
	data    *types.Data       // companion data for a forged non-empty block (P2P) ...
	sdata   *types.SignedData // ... or as signed data on the DA layer
	blob    []byte            // raw DA blob (junk)
	light   bool              // include in the light-node admission check
}

func sign(h *types.SignedHeader, s *world.FixedSigner) {
	payload, err := types.DefaultSignaturePayloadProvider(&h.Header)
	if err != nil {
		panic(err)
	}
	sig, err := s.Sign(payload)
	if err != nil {
		panic(err)
	}
	h.Signature = sig
}

// forge builds a header for block index T of the chain under the PROPOSER'S ADDRESS with the ATTACKER'S key.
func forge(pc *world.ProducerChain, T int, mut func(h *types.SignedHeader)) *types.SignedHeader {
	h := pc.Header(T)
	h.BaseHeader.Time++ // another block at the same height
	h.Signer = types.Signer{PubKey: attacker.Pub(), Address: append([]byte(nil), h.ProposerAddress...)}
	if mut != nil {
		mut(h)
	}
	sign(h, attacker)
	return h
}

func evilData(pc *world.ProducerChain, h *types.SignedHeader) *types.Data {
	return &types.Data{Metadata: &types.Metadata{ChainID: h.ChainID(), Height: h.Height(), Time: h.BaseHeader.Time}, Txs: types.Txs{types.Tx("evil-tx")}}
}

func catalogue(pc *world.ProducerChain, T int) []item {
	var out []item
	emptyHash := (&types.Data{}).DACommitment()
	// self-consistent forged EMPTY block
	fe := forge(pc, T, func(h *types.SignedHeader) { h.DataHash = emptyHash })
	// self-consistent forged NON-EMPTY block (+ its data)
	var fd *types.Data
	fn := forge(pc, T, func(h *types.SignedHeader) {
		fd = evilData(pc, h)
		h.DataHash = fd.DACommitment()
	})
	fd.Metadata.Time = fn.BaseHeader.Time
	dbz, _ := fd.MarshalBinary()
	dsig, _ := attacker.Sign(dbz)
	fsd := &types.SignedData{Data: *fd, Signature: dsig, Signer: types.Signer{PubKey: attacker.Pub(), Address: fn.ProposerAddress}}
	for _, ch := range []string{"da", "p2p-header"} {
		out = append(out, item{Kind: "forged-empty-block(attacker key under proposer address)", Channel: ch, hdr: fe, light: true})
		out = append(out, item{Kind: "forged-nonempty-block(attacker key under proposer address)", Channel: ch, hdr: fn, data: fd, sdata: fsd, light: true})
		// altered copies of the genuine header, re-signed by the attacker
		out = append(out, item{Kind: "genuine-header-app-hash-altered-resigned", Channel: ch, hdr: forge(pc, T, func(h *types.SignedHeader) { h.AppHash = bytes.Repeat([]byte{7}, 32) }), light: true})
		out = append(out, item{Kind: "genuine-header-wrong-chain-id-resigned", Channel: ch, hdr: forge(pc, T, func(h *types.SignedHeader) { h.BaseHeader.ChainID = "other-chain" }), light: true})
		out = append(out, item{Kind: "genuine-header-last-hash-altered-resigned", Channel: ch, hdr: forge(pc, T, func(h *types.SignedHeader) { h.LastHeaderHash = bytes.Repeat([]byte{9}, 32) }), light: true})
		// unsigned / garbage-signed headers that link correctly, carrying the PROPOSER'S public key (it is public)
		un := pc.Header(T)
		un.BaseHeader.Time++
		un.Signature = nil
		out = append(out, item{Kind: "unsigned-header-linking-correctly", Channel: ch, hdr: un, light: true})
		gs := pc.Header(T)
		gs.BaseHeader.Time++
		gs.Signature = bytes.Repeat([]byte{0xAB}, 64)
		out = append(out, item{Kind: "garbage-signed-header-linking-correctly", Channel: ch, hdr: gs, light: true})
		// honest third party: its own key under its own address
		out = append(out, item{Kind: "header-by-another-signer-under-its-own-address", Channel: ch, hdr: forge(pc, T, func(h *types.SignedHeader) {
			h.ProposerAddress = attacker.Addr()
			h.Signer.Address = attacker.Addr()
			h.DataHash = emptyHash
		}), light: true})
	}
	// identity matrix: every combination of (header proposer address, signer address, carried public key) over
	// {proposer's, attacker's}, always signed with the attacker's key (the only key the adversary has), for an
	// otherwise valid next block. Only the all-proposer identity would be genuine, and that one cannot be signed.
	proposerPub := pc.Header(0).Signer.PubKey
	proposerAddr := pc.Header(0).ProposerAddress
	for _, pa := range []string{"P", "A"} {
		for _, sa := range []string{"P", "A"} {
			for _, pk := range []string{"A", "P"} {
				if pa == "P" && sa == "P" && pk == "A" {
					continue // = forged-empty-block above
				}
				pa, sa, pk := pa, sa, pk
				h := forge(pc, T, func(h *types.SignedHeader) {
					h.DataHash = emptyHash
					h.ProposerAddress = map[string][]byte{"P": proposerAddr, "A": attacker.Addr()}[pa]
					h.Signer.Address = map[string][]byte{"P": proposerAddr, "A": attacker.Addr()}[sa]
					if pk == "P" {
						h.Signer.PubKey = proposerPub
					}
				})
				for _, ch := range []string{"da", "p2p-header"} {
					out = append(out, item{Kind: fmt.Sprintf("mixed-identity-empty-block(proposer-address=%s,signer-address=%s,public-key=%s; P=proposer's A=attacker's)", pa, sa, pk), Channel: ch, hdr: h, light: true})
				}
			}
		}
	}
	// exact copies of the genuine items (same hash / same commitment: every public field copied) whose signature is
	// replaced — anybody can make these from public data; they must never count as the proposer's material
	cp := pc.Header(T)
	cp.Signature = bytes.Repeat([]byte{0xCD}, 64)
	out = append(out, item{Kind: "exact-copy-of-genuine-header-with-garbage-signature", Channel: "da", hdr: cp, light: true})
	cp2 := pc.Header(T)
	cp2.Signature = nil
	out = append(out, item{Kind: "exact-copy-of-genuine-header-without-signature", Channel: "da", hdr: cp2, light: true})
	if pc.DatBlobs[T] != nil {
		var gsd types.SignedData
		if err := gsd.UnmarshalBinary(pc.DatBlobs[T]); err == nil {
			gsd.Signature = bytes.Repeat([]byte{0xCD}, 64)
			out = append(out, item{Kind: "exact-copy-of-genuine-signed-data-with-garbage-signature", Channel: "da", sdata: &gsd})
		}
	}
	// forged signed data alone on the DA layer, junk data on P2P
	out = append(out, item{Kind: "forged-signed-data(attacker key under proposer address)", Channel: "da", sdata: fsd})
	out = append(out, item{Kind: "junk-p2p-data-with-plausible-metadata", Channel: "p2p-data", data: fd})
	// malformed bytes on the DA layer
	hb := pc.HdrBlobs[T]
	for _, cut := range []int{1, len(hb) / 2, len(hb) - 1} {
		out = append(out, item{Kind: fmt.Sprintf("truncated-genuine-header-blob(%d/%d)", cut, len(hb)), Channel: "da", blob: hb[:cut]})
	}
	if db := pc.DatBlobs[T]; db != nil {
		for _, cut := range []int{1, len(db) / 2, len(db) - 1} {
			out = append(out, item{Kind: fmt.Sprintf("truncated-genuine-data-blob(%d/%d)", cut, len(db)), Channel: "da", blob: db[:cut]})
		}
	}
	out = append(out, item{Kind: "garbage-bytes", Channel: "da", blob: []byte{0xff, 0x00, 0x12, 0x0a, 0x80, 0x80, 0x80, 0x80, 0x80, 0x80, 0x80, 0x80, 0x80, 0x01}})
	return out
}

func hdrBlob(h *types.SignedHeader) []byte {
	hp, err := h.ToProto()
	if err != nil {
		panic(err)
	}
	bz, err := proto.Marshal(hp)
	if err != nil {
		panic(err)
	}
	return bz
}

type result struct {
	digest string
	fatal  []string
	stored string // failure of the "every stored header verifies under the genesis key" clause
}

// run delivers the genuine chain over the DA layer (one DA height per block) and injects `it` (nil = baseline)
// at position pos relative to target block T: "future" (before block T-1 arrived), "next" (just before block T),
// "past" (after block T was applied).
func run(t *testing.T, pc *world.ProducerChain, it *item, T int, pos string, genuineVia string) (res result) {
	synctest.Test(t, func(t *testing.T) {
		env := world.NewEnv()
		hs := &world.P2PStore[*types.SignedHeader]{}
		ds := &world.P2PStore[*types.Data]{}
		f, err := world.StartFullL2(world.Params{InitialHeight: pc.Initial, DAStartHeight: 1}, env, nil, hs, ds, nil)
		if err != nil {
			res.fatal = []string{"startup: " + err.Error()}
			return
		}
		defer f.Stop()
		daH := uint64(0)
		genuine := func(i int) {
			if genuineVia == "p2p" {
				// the proposer's blobs are NOT on the DA layer (yet); the node syncs over P2P
				if hs.Height() < pc.Initial+uint64(i) {
					hs.Append1(pc.Header(i))
				}
				if ds.Height() < pc.Initial+uint64(i) {
					ds.Append1(pc.DataAt(i))
				}
				daH++
				env.DA.SetTip(daH)
				f.TickP2P()
				f.TickDA()
				f.TickIncluder()
				return
			}
			daH++
			env.DA.Place(daH, pc.HdrBlobs[i])
			if pc.DatBlobs[i] != nil {
				env.DA.Place(daH, pc.DatBlobs[i])
			}
			f.TickDA()
			f.TickIncluder()
		}
		inject := func() {
			if it == nil {
				return
			}
			switch it.Channel {
			case "da":
				daH++
				if it.blob != nil {
					env.DA.Place(daH, it.blob)
				}
				if it.hdr != nil {
					env.DA.Place(daH, hdrBlob(it.hdr))
				}
				if it.sdata != nil {
					bz, err := it.sdata.MarshalBinary()
					if err != nil {
						panic(err)
					}
					env.DA.Place(daH, bz)
				}
				f.TickDA()
			case "p2p-header", "p2p-data":
				// the P2P stores are contiguous: genuine items below the target, the adversary's at the target
				for i := 0; i < T; i++ {
					if hs.Height() < pc.Initial+uint64(i) {
						hs.Append1(pc.Header(i))
					}
					if ds.Height() < pc.Initial+uint64(i) {
						ds.Append1(pc.DataAt(i))
					}
				}
				if it.hdr != nil && hs.Height() < it.hdr.Height() {
					hs.Append1(it.hdr)
				}
				if it.data != nil && ds.Height() < it.data.Height() {
					ds.Append1(it.data)
				}
				f.TickP2P()
			}
			f.TickIncluder()
		}
		for i := 0; i < pc.Len(); i++ {
			if pos == "future" && i == T-1 {
				inject()
			}
			if pos == "next" && i == T {
				inject()
			}
			genuine(i)
			if pos == "past" && i == T {
				inject()
			}
		}
		f.TickDA()
		f.TickP2P()
		f.TickIncluder()
		res.digest = f.Digest(pc.Initial)
		res.fatal = f.Fatal
		// every stored header verifies under the genesis proposer's key
		_, blocks, _ := world.ReadChain(f.N.OracleStore(), pc.Initial)
		proposer := f.N.Signer
		for _, b := range blocks {
			payload, _ := types.DefaultSignaturePayloadProvider(&b.H.Header)
			ok, err := proposer.Pub().Verify(payload, b.H.Signature)
			if err != nil || !ok || !bytes.Equal(types.KeyAddress(b.H.Signer.PubKey), f.N.Genesis.ProposerAddress) {
				res.stored = fmt.Sprintf("stored header %d is not signed by the genesis proposer's key", b.H.Height())
				break
			}
		}
	})
	return
}

func TestCheck(t *testing.T) {
	r := vf.Start("C03", "exploration")
	patterns := vf.Pick(r, []string{"ab", "ea"}, []string{"ab", "ea", "ae", "ee", "abe", "eab", "bea"})
	r.Assume = []string{
		"the adversary has the proposer's public key and address, the chain so far, and its own key; it cannot sign with the proposer's key",
		"genuine traffic arrives over the DA layer (one DA height per block) or, in a second variant, over P2P only with nothing of the proposer on the DA layer; the adversarial item arrives over the DA layer, the P2P header store or the P2P data store, before block T-1, just before block T, or after block T",
		"a halt caused by junk arriving over P2P only is recorded as an observation, not as a violation (the property's no-halt clause names third-party material on the DA layer)",
		"light-node admission is decided by the two calls go-header makes on a received header: hdr.Validate() and trusted.Verify(hdr)",
	}
	var evals, lightEvals int64
	var p2pHalts int
	positions := []string{"future", "next", "past"}
	for _, pt := range patterns {
		pc, err := world.BuildChain(pt, 1)
		if err != nil {
			r.EngineError(err.Error())
			continue
		}
		base := run(t, pc, nil, 0, "", "da")
		baseP2P := run(t, pc, nil, 0, "", "p2p")
		if len(baseP2P.fatal) > 0 || !strings.Contains(baseP2P.digest, fmt.Sprintf("height=%d;", pc.Len())) || !strings.Contains(baseP2P.digest, "dainc=0;") {
			r.EngineError("baseline run over P2P (nothing of the proposer on the DA layer) is not 'synced, nothing DA-included': " + baseP2P.digest)
			continue
		}
		if len(base.fatal) > 0 || !strings.Contains(base.digest, fmt.Sprintf("height=%d;", pc.Len())) || !strings.Contains(base.digest, fmt.Sprintf("dainc=%d;", pc.Len())) {
			r.EngineError("baseline run without adversary does not reach the producer chain: " + base.digest + " " + strings.Join(base.fatal, ";"))
			continue
		}
		base2 := run(t, pc, nil, 0, "", "da")
		if base2.digest != base.digest {
			r.EngineError("baseline is not deterministic")
		}
		for T := 0; T < pc.Len(); T++ {
			for _, it := range catalogue(pc, T) {
				it := it
				// light node: the two calls go-header makes
				if it.light && it.hdr != nil && T > 0 {
					lightEvals++
					trusted := pc.Header(T - 1)
					if it.hdr.Validate() == nil && trusted.Verify(it.hdr) == nil {
						r.Report(vf.Violation{Clause: "light-node-admission", Tags: []string{"light:" + it.Kind}, Msg: fmt.Sprintf("a header-only node whose trusted head is the genuine header %d accepts %s for height %d (Validate()==nil and Verify()==nil)", trusted.Height(), it.Kind, it.hdr.Height()), Cost: 1, History: map[string]any{"pattern": pt, "T": T, "kind": it.Kind, "light": true}})
					}
				}
				for _, pos := range positions {
					if (pos == "future" && T < 2) || (pos == "next" && T < 1) {
						continue
					}
					for _, via := range []string{"da", "p2p"} {
						if via == "p2p" && it.Channel != "da" {
							continue // the P2P stores hold the genuine chain in this variant; only DA-borne items are injected
						}
						base := base
						if via == "p2p" {
							base = baseP2P
						}
						evals++
						res := run(t, pc, &it, T, pos, via)
						tags := []string{it.Channel + ":" + it.Kind}
						hist := map[string]any{"pattern": pt, "T": T, "kind": it.Kind, "channel": it.Channel, "pos": pos, "genuine_via": via}
						desc := fmt.Sprintf("chain genesis+%q (genuine traffic over %s), %s for height %d over %s, position %s", pt, via, it.Kind, pc.Initial+uint64(T), it.Channel, pos)
						r.Outcome(fmt.Sprintf("%s/%s/%s/%v", it.Kind, it.Channel, via, res.digest == base.digest))
						if res.stored != "" {
							r.Report(vf.Violation{Clause: "stored-chain-signed-by-proposer", Tags: tags, Msg: desc + ": " + res.stored, Cost: 1, History: hist})
							continue
						}
						if res.digest == base.digest {
							if evals%37 == 0 {
								r.Sample(map[string]any{"case": desc, "result": "end state identical to the run without the adversary"})
							}
							continue
						}
						if len(res.fatal) > 0 {
							if it.Channel != "da" {
								p2pHalts++
								continue
							}
							r.Report(vf.Violation{Clause: "third-party-da-material-halts-node", Tags: tags, Msg: desc + ": the node stopped with a fatal error: " + res.fatal[0], Cost: 1, History: hist})
							continue
						}
						r.Report(vf.Violation{Clause: "adversarial-material-changes-outcome", Tags: tags, Msg: desc + ":\n with adversary: " + res.digest + "\n without:        " + base.digest, Cost: 1, History: hist})
					}
				}
			}
		}
	}
	_ = time.Now
	r.Finish(vf.Coverage{
		Evaluations: evals + lightEvals, DistinctNontrivial: int64(r.DistinctOutcomes()), States: evals, Transitions: evals,
		Rule:       "every (producer chain pattern, target height, catalogue item, channel, insertion position) combination runs the full node with all ingress loops; plus every (catalogue header, trusted head) pair for light-node admission; distinct = distinct (item kind, channel, identical-to-baseline?) classes",
		Exhaustive: true,
		Bounds:     map[string]any{"patterns": patterns, "positions": positions, "full_node_runs": evals, "light_node_pairs": lightEvals},
		Extra:      map[string]any{"observation_p2p_only_junk_halts_node": p2pHalts},
	})
}
