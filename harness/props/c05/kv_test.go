package c05

import (
	"fmt"

	kvexec "github.com/evstack/ev-node/apps/testapp/kv"

	"verif/harness/world"
)

// Real-executor part: the crash/restart histories of check_test.go with the repository's own executor
// (apps/testapp/kv.KVExecutor) as the execution layer instead of the harness double.
//
// The executor keeps its state in its own database (in the test application: a second badger directory of the same
// process). Here that database is a world.KV ("disk") that survives the process like the node's image does: every
// life of the node opens a NEW KVExecutor (VerifNewKVExecutorOn = what NewKVExecutor builds, on a supplied datastore)
// on the contents the previous life left behind. The executor's commits are durable writes of the process, i.e.
// crash points in the same `crash` class as the node store's writes; the mempool channel is volatile (unused by a
// full node). Chains are built by a real aggregator over a KVExecutor of its own; the block AT the initial height may
// carry transactions (see world.BuildChainExec), so that "the node store has no state yet, the executor has already
// committed something" is part of the histories.

type kvDisk struct {
	img map[string][]byte
	kv  *world.KV
}

// open returns the NodeOpts.ExecImpl of one life: a fresh KVExecutor on the surviving contents, sharing the fate of
// the node process.
func (d *kvDisk) open(env *world.Env, onWrite func(idx int, w world.Write) bool) func(n *world.Node) any {
	return func(n *world.Node) any {
		if d.kv != nil {
			d.img = d.kv.Image() // the previous life is dead (or was never armed): nothing writes any more
		}
		kv := world.NewKV(d.img)
		kv.Fate = n.Fate
		kv.OnWrite = onWrite
		d.kv = kv
		var log *world.Exec
		if env != nil {
			log = env.Exec
		}
		return &world.RealExec{Inner: kvexec.VerifNewKVExecutorOn(kv, 8), Log: log, Fate: n.Fate}
	}
}

// kvTxSet: "key=value" transactions; b overwrites a key that a sets (the root is not a function of the tx list alone).
func kvTxSet(letter byte) [][]byte {
	switch letter {
	case 'a':
		return [][]byte{[]byte("k1=a"), []byte("k2=a")}
	case 'b':
		return [][]byte{[]byte("k1=b")}
	}
	return nil
}

// buildKVChain: pattern[0] is the block at the initial height. Vacuity guard (engine sanity, not part of the oracle):
// every non-empty block of these patterns must have changed the executor's state root, otherwise "the executor is ahead
// of the node store" would not be observable. Nothing else about the roots is assumed here (the executor's own
// contract is C15's subject).
func buildKVChain(pattern string) (*world.ProducerChain, error) {
	pc, err := world.BuildChainExec("c05-kv", pattern, 1, kvTxSet, (&kvDisk{}).open(nil, nil))
	if err != nil {
		return nil, err
	}
	prev := []byte(pc.Header(0).AppHash) // the genesis root
	for i := range pc.AppHash {
		if len(pc.Txs[i]) > 0 && string(pc.AppHash[i]) == string(prev) {
			return nil, fmt.Errorf("producer chain %q: block %d carries %q but the executor's root did not change (%q)", pattern, i, pc.Txs[i], prev)
		}
		prev = pc.AppHash[i]
	}
	return pc, nil
}
