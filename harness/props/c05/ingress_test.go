package c05

import (
	"fmt"
	"sort"
	"strings"
	"testing"
	"testing/synctest"

	"verif/harness/explore"
	"verif/harness/world"
)

// Ingress level: a full node that syncs from the DA layer only (no P2P redelivery) runs all its loops unmodified under
// the cooperative scheduler; the genuine blobs sit on the DA double within a bounded number of deviations from the
// in-order placement (many per height, out of height order); the process is killed before any durable write of block
// application (caches are lost, nothing is saved) and rebooted on the exact image; "redelivery" is what the restarted
// node's own DA scan finds. After the fault phase the chain's next block is published; the node must reach the
// proposer's chain.

func ingressBody(t *testing.T, c *explore.Ctx, pc *world.ProducerChain) (out outcome) {
	synctest.Test(t, func(t *testing.T) { out = ingressBubble(c, pc) })
	return
}

func ingressBubble(c *explore.Ctx, pc *world.ProducerChain) (out outcome) {
	const maxDA = 3
	env := world.NewEnv()
	nb := pc.Len() - 1 // the last block is published after the fault phase (the chain keeps going)
	ahead := c.Choose("config", 2) == 1
	type placed struct {
		blob []byte
		at   uint64
		name string
	}
	var blobs []placed
	canon := func(i int) int {
		if i+1 > maxDA {
			return maxDA - 1
		}
		return i
	}
	pick := func(i int) uint64 { return uint64((canon(i)+c.Choose("place", maxDA))%maxDA + 1) }
	for i := 0; i < nb; i++ {
		blobs = append(blobs, placed{pc.HdrBlobs[i], pick(i), fmt.Sprintf("H%d", i)})
		if pc.DatBlobs[i] != nil {
			blobs = append(blobs, placed{pc.DatBlobs[i], pick(i), fmt.Sprintf("D%d", i)})
		}
	}
	var layout []string
	for _, b := range blobs {
		layout = append(layout, fmt.Sprintf("%s@%d", b.name, b.at))
	}
	out.trace = append(out.trace, "DA:"+strings.Join(layout, ","), fmt.Sprintf("ahead=%v", ahead))
	p := world.Params{InitialHeight: pc.Initial, DAStartHeight: 1}
	var tags []string
	armed := false
	last := "boot"
	onWrite := func(idx int, w world.Write) bool {
		if !armed {
			return false
		}
		if c.Choose("crash", 2) == 1 {
			out.trace = append(out.trace, fmt.Sprintf("CRASH(after %s, before %s)", last, kindOf(w)))
			tags = append(tags, "crash:after["+last+"]before["+kindOf(w)+"]")
			return true
		}
		last = kindOf(w)
		return false
	}
	var f *world.FullL2
	boot := func(img map[string][]byte) *world.Fail {
		armed = false
		sched := world.NewSched(nil)
		sched.Choose = func(n int, names []string) int {
			deliverable := false
			for _, nm := range names {
				if strings.HasPrefix(nm, "deliver:") {
					deliverable = true
				}
			}
			if !deliverable {
				return 0
			}
			rank := func(nm string) int {
				switch {
				case strings.HasPrefix(nm, "deliver:header"):
					return 1
				case strings.HasPrefix(nm, "deliver:data"):
					return 2
				}
				return 0
			}
			idx := make([]int, n)
			for i := range idx {
				idx[i] = i
			}
			sort.SliceStable(idx, func(a, b int) bool { return rank(names[idx[a]]) < rank(names[idx[b]]) })
			return idx[c.Choose("order", n)]
		}
		ff, err := world.StartFullL2Sched(p, env, img, nil, nil, onWrite, sched)
		if err != nil {
			return &world.Fail{Clause: "startup", Msg: "the full node cannot start on the persisted image: " + err.Error()}
		}
		f = ff
		armed = true
		last = "boot"
		return nil
	}
	if fl := boot(nil); fl != nil {
		out.fail = fl
		return
	}
	defer func() { f.Stop() }()
	height := uint64(0)
	check := func(final bool) *world.Fail {
		if len(f.Fatal) > 0 {
			return &world.Fail{Clause: "sync-halts", Msg: "a loop stopped with a fatal error: " + f.Fatal[0]}
		}
		dH, dD := map[int]bool{}, map[int]bool{}
		for i := 0; i < pc.Len(); i++ {
			dH[i], dD[i] = final, final
		}
		h, fl := world.CheckFollows(f.N, pc, dH, dD, height)
		if fl != nil && !final && (fl.Clause == "converges" || fl.Clause == "applies-only-complete-blocks") {
			fl = nil
		}
		height = h
		return fl
	}
	tick := func() *world.Fail {
		f.TickDA()
		if f.N.Fate.Crashed() {
			img := f.N.KV.Image()
			f.Stop()
			out.trace = append(out.trace, "REBOOT")
			if fl := boot(img); fl != nil {
				return fl
			}
			height = 0 // re-read below; monotonicity across the crash is checked by the retrievability clauses
			f.TickDA()
		}
		return check(false)
	}
	if ahead {
		for _, b := range blobs {
			env.DA.Place(b.at, b.blob)
		}
		env.DA.SetTip(maxDA)
	}
	for da := uint64(1); da <= maxDA; da++ {
		if !ahead {
			for _, b := range blobs {
				if b.at == da {
					env.DA.Place(da, b.blob)
				}
			}
			env.DA.SetTip(da)
		}
		if fl := tick(); fl != nil {
			out.fail, out.tags = fl, tags
			return
		}
	}
	armed = false
	env.DA.Place(maxDA+1, pc.HdrBlobs[nb]) // the chain goes on
	env.DA.SetTip(maxDA + 1)
	for r := 0; r < 3; r++ {
		if fl := tick(); fl != nil {
			out.fail, out.tags = fl, tags
			return
		}
	}
	if fl := check(true); fl != nil {
		out.fail, out.tags = fl, tags
		return
	}
	out.height = height
	return
}
