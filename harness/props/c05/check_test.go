package c05

import (
	"context"
	"fmt"
	"os"
	"strings"
	"sync/atomic"
	"testing"
	"testing/synctest"
	"time"

	"verif/harness/explore"
	"verif/harness/vf"
	"verif/harness/world"
)

// C05 — a full node recovers from a crash at any point of block application.
// The real SyncLoop applies a producer chain; every durable write is a crash point (recurring during recovery);
// after the reboot the complete event set is delivered again in every order (within the order budget).

type outcome struct {
	fail   *world.Fail
	tags   []string
	trace  []string
	height uint64
}

func body(t *testing.T, c *explore.Ctx, pc *world.ProducerChain) (out outcome) {
	synctest.Test(t, func(t *testing.T) { out = bubble(c, pc, false) })
	return
}

// kvBody is body with the repository's real executor (apps/testapp/kv.KVExecutor over its own durable database,
// see kv_test.go) as the execution layer; the executor's commits are crash points as well.
func kvBody(t *testing.T, c *explore.Ctx, pc *world.ProducerChain) (out outcome) {
	synctest.Test(t, func(t *testing.T) { out = bubble(c, pc, true) })
	return
}

func kindOf(w world.Write) string {
	s := w.String()
	switch {
	case strings.Contains(s, "put(/s)"):
		return "state"
	case strings.Contains(s, "batch("):
		return "block-save"
	case strings.Contains(s, "put(/t)"):
		return "chain-height"
	}
	return "other"
}

func bubble(c *explore.Ctx, pc *world.ProducerChain, kvExec bool) (out outcome) {
	env := world.NewEnv()
	p := world.Params{InitialHeight: pc.Initial, BlockTime: 1000 * time.Hour, DABlockTime: 1000 * time.Hour}
	var tags []string
	last := "boot"
	armed := false
	var n *world.Node
	crashPoint := func(kind string) bool {
		if !armed {
			return false
		}
		if c.Choose("crash", 2) == 1 {
			out.trace = append(out.trace, fmt.Sprintf("CRASH(after %s, before %s)", last, kind))
			tags = append(tags, "crash:after["+last+"]before["+kind+"]")
			if n.Height() < pc.Initial {
				tags = append(tags, "crash:in-first-block")
			}
			return true
		}
		last = kind
		return false
	}
	onWrite := func(idx int, w world.Write) bool { return crashPoint(kindOf(w)) }
	opts := world.NodeOpts{OnWrite: onWrite}
	if kvExec {
		tags = append(tags, "kv-executor")
		if len(pc.Txs[0]) > 0 {
			tags = append(tags, "first-block-nonempty")
		}
		// the executor's database: a second durable store of the same process; its commits are crash points too
		disk := &kvDisk{}
		opts.ExecImpl = disk.open(env, func(idx int, w world.Write) bool { return crashPoint("exec-commit") })
	}
	var cancel context.CancelFunc
	errCh := make(chan error, 8)
	boot := func(img map[string][]byte) *world.Fail {
		armed = false
		nn, err := world.StartNode(p, env, img, opts)
		if err != nil {
			return &world.Fail{Clause: "startup", Msg: "the full node cannot start on the persisted image: " + err.Error()}
		}
		n = nn
		var ctx context.Context
		ctx, cancel = context.WithCancel(context.Background())
		go n.M.SyncLoop(ctx, errCh)
		synctest.Wait()
		armed = true
		last = "boot"
		return nil
	}
	if f := boot(nil); f != nil {
		out.fail = f
		return
	}
	defer func() { cancel(); synctest.Wait() }()
	events := pc.Events()
	dH, dD := map[int]bool{}, map[int]bool{}
	height := n.Height()
	resetDelivered := func() {
		dH, dD = map[int]bool{}, map[int]bool{}
		for i := 0; i < pc.Len(); i++ {
			if pc.Initial+uint64(i) <= n.Height() {
				dH[i], dD[i] = true, true
			}
		}
	}
	// deliver returns crashed=true if the process died while handling the event
	deliver := func(e world.Event) (crashed bool, f *world.Fail) {
		out.trace = append(out.trace, e.String())
		world.Deliver(n.M, pc, e, uint64(len(out.trace)))
		synctest.Wait()
		if n.Fate.Crashed() {
			return true, nil
		}
		select {
		case err := <-errCh:
			return false, &world.Fail{Clause: "sync-halts", Msg: "SyncLoop stopped with a fatal error: " + err.Error()}
		default:
		}
		if e.Header {
			dH[e.Idx] = true
		} else {
			dD[e.Idx] = true
		}
		h, f := world.CheckFollows(n, pc, dH, dD, height)
		height = h
		return false, f
	}
	// phase 1: one of three canonical orders
	var order []world.Event
	switch c.Choose("preorder", 3) {
	case 0:
		order = events // H0 [D0] H1 [D1] ...
	case 1: // all data first, then headers ascending: the last header applies one block each
		for _, e := range events {
			if !e.Header {
				order = append(order, e)
			}
		}
		for _, e := range events {
			if e.Header {
				order = append(order, e)
			}
		}
	case 2: // descending: the last event applies every block in one go
		for i := len(events) - 1; i >= 0; i-- {
			order = append(order, events[i])
		}
	}
	reboot := func() *world.Fail {
		cancel()
		synctest.Wait()
		img := n.KV.Image()
		out.trace = append(out.trace, "REBOOT")
		if f := boot(img); f != nil {
			return f
		}
		// directly after restart: every height up to the recorded chain height has a retrievable, identical block
		// and the recorded state corresponds to exactly that height
		resetDelivered()
		h, f := world.CheckFollows(n, pc, dH, dD, 0)
		if f != nil && f.Clause != "converges" && f.Clause != "applies-only-complete-blocks" {
			f.Msg = "after restart: " + f.Msg
			return f
		}
		height = h
		return nil
	}
	crashedOnce := false
	for i := 0; i < len(order); i++ {
		crashed, f := deliver(order[i])
		if f != nil {
			out.fail, out.tags = f, tags
			return
		}
		if crashed {
			crashedOnce = true
			if f := reboot(); f != nil {
				out.fail, out.tags = f, tags
				return
			}
			break
		}
	}
	// phase 2: after a crash, the complete event set again in any order (crashes may recur)
	if crashedOnce {
		for {
			remaining := append([]world.Event(nil), events...)
			again := false
			for len(remaining) > 0 {
				k := c.Choose("order", len(remaining))
				e := remaining[k]
				remaining = append(remaining[:k:k], remaining[k+1:]...)
				crashed, f := deliver(e)
				if f != nil {
					out.fail, out.tags = f, tags
					return
				}
				if crashed {
					if f := reboot(); f != nil {
						out.fail, out.tags = f, tags
						return
					}
					again = true
					break
				}
			}
			if !again {
				break
			}
		}
	}
	top := pc.Initial + uint64(pc.Len()) - 1
	if height != top {
		out.fail, out.tags = &world.Fail{Clause: "converges", Msg: fmt.Sprintf("after everything was delivered the full node is at height %d, the producer at %d", height, top)}, tags
		return
	}
	out.height = height
	return
}

func TestCheck(t *testing.T) {
	r := vf.Start("C05", "fault_enumeration")
	if r.RunShards(16) { // bubble-heavy: one process per shard of the exploration
		return
	}
	nAbove := vf.Pick(r, 2, 3)
	budgets := vf.Pick(r, map[string]int{"crash": 2, "order": 2}, map[string]int{"crash": 2, "order": 4})
	budgets3 := map[string]int{"crash": 2, "order": 2}
	r.Assume = []string{
		"crash model as in C04 (process dies between two durable datastore writes; caches are lost); the executor is external and survives",
		"before the first crash the events arrive in one of three canonical orders (interleaved ascending, all data then headers, descending); after a reboot the complete event set is delivered again in every order within the order budget",
		"chains without two identical non-empty transaction lists (that stall is C02's known finding)",
		"real-executor part: the execution layer is the repository's apps/testapp/kv.KVExecutor built by the hook VerifNewKVExecutorOn on a logging datastore that survives the process (stands for its badger directory; atomic batch commits); every life opens a new executor on it; producer chains come from a real aggregator over a KVExecutor of its own, a non-empty block at the initial height is built by the aggregator's own createBlock and taken by publishBlock as the pending block of that height",
		"ingress level: DA-only full node with all loops under the cooperative scheduler, blobs within <=1/2 deviations from the in-order placement on 3 DA heights (incl. 'everything already on the DA layer'), harness-side event queues with <=1 deviation from the canonical delivery order, one crash before any durable write, reboot without caches; liveness under continued operation (the chain's next block is published afterwards)",
	}
	// real-executor part: chains of 1..nKV blocks INCLUDING the block at the initial height
	nKV := vf.Pick(r, 2, 3)
	kvBudgets := vf.Pick(r, map[string]int{"crash": 2, "order": 2}, map[string]int{"crash": 2, "order": 2})
	var kvJobs []string
	for k := 1; k <= nKV; k++ {
		for _, pt := range world.Patterns("eab", k) {
			if !world.HasRepeatedNonEmpty(pt) {
				kvJobs = append(kvJobs, pt)
			}
		}
	}
	var jobs []string
	for k := 1; k <= nAbove; k++ {
		for _, pt := range world.Patterns("eab", k) {
			if !world.HasRepeatedNonEmpty(pt) {
				jobs = append(jobs, pt)
			}
		}
	}
	if r.ReplayPath() != "" {
		var h struct {
			Pattern string
			Ingress bool
			KV      bool
			Choices []explore.Point
		}
		if _, err := r.LoadReplay(&h); err != nil {
			r.EngineError(err.Error())
		} else if h.Ingress {
			pc, _ := world.BuildChain(h.Pattern+"e", 1)
			explore.ReplayOne(h.Choices, func(c *explore.Ctx) {
				if o := ingressBody(t, c, pc); o.fail != nil {
					fmt.Println(o.fail.Msg, o.trace)
					r.Report(vf.Violation{Clause: o.fail.Clause, Tags: o.tags, Msg: o.fail.Msg, History: h})
				}
			})
		} else if h.KV {
			if pc, err := buildKVChain(h.Pattern); err != nil {
				r.EngineError(err.Error())
			} else {
				explore.ReplayOne(h.Choices, func(c *explore.Ctx) {
					if o := kvBody(t, c, pc); o.fail != nil {
						fmt.Println(o.fail.Msg, o.trace)
						r.Report(vf.Violation{Clause: o.fail.Clause, Tags: o.tags, Msg: o.fail.Msg, History: h})
					}
				})
			}
		} else if pc, err := world.BuildChain(h.Pattern, 1); err != nil {
			r.EngineError(err.Error())
		} else {
			explore.ReplayOne(h.Choices, func(c *explore.Ctx) {
				if o := body(t, c, pc); o.fail != nil {
					fmt.Println(o.fail.Msg, o.trace)
					r.Report(vf.Violation{Clause: o.fail.Clause, Tags: o.tags, Msg: o.fail.Msg, History: h})
				}
			})
		}
		r.Finish(vf.Coverage{Evaluations: 1, DistinctNontrivial: 1})
		return
	}
	deadline := time.Now().Add(vf.Pick(r, 300*time.Second, 25*time.Minute))
	var caps []string
	var total explore.Stats
	// development aid: VERIF_C05_PARTS=kv,main,ingress runs only the named parts; a skipped part is reported as a cap
	skip := func(part string) bool {
		sel := os.Getenv("VERIF_C05_PARTS")
		if sel == "" || strings.Contains(","+sel+",", ","+part+",") {
			return false
		}
		caps = append(caps, "part "+part+" skipped by VERIF_C05_PARTS")
		return true
	}
	if skip("kv") {
		kvJobs = nil
	}
	if skip("main") {
		jobs = nil
	}
	ingressJobs := vf.Pick(r, []string{"ab"}, []string{"ab", "ea"})
	if skip("ingress") {
		ingressJobs = nil
	}
	var nSamples atomic.Int32 // evidence keeps the first 6 samples: 2 of the real-executor part, 2 of the main part, the rest ingress
	// real-executor part: the same crash/restart histories over apps/testapp/kv.KVExecutor (kv_test.go)
	var kvStats explore.Stats
	for _, pt := range kvJobs {
		pc, err := buildKVChain(pt)
		if err != nil {
			r.EngineError("kv producer chain " + pt + ": " + err.Error())
			continue
		}
		left := time.Until(deadline)
		if left <= 0 {
			caps = append(caps, "deadline reached before kv-executor pattern "+pt)
			break
		}
		st := explore.Explore(explore.Config{Budgets: kvBudgets, Deadline: left, ShardDepth: 2}, func(c *explore.Ctx) {
			o := kvBody(t, c, pc)
			if o.fail != nil {
				r.Report(vf.Violation{Clause: o.fail.Clause, Tags: o.tags, Msg: fmt.Sprintf("[real KVExecutor, chain %q (first letter = block at the initial height)] %s\n trace: %s", pt, o.fail.Msg, strings.Join(o.trace, " ")), Cost: len(o.trace), History: map[string]any{"Pattern": pt, "KV": true, "Choices": c.Choices()}})
				r.Outcome("KV:fail:" + o.fail.Clause)
				return
			}
			tr := strings.Join(o.trace, " ")
			r.Outcome("KV:" + pt + ":" + tr)
			if strings.Contains(tr, "exec-commit, before") && len(pc.Txs[0]) > 0 && strings.Count(tr, "CRASH") == 1 && nSamples.Add(1) <= 2 {
				r.Sample(map[string]any{"level": "kv-executor", "chain": pt, "trace": tr})
			}
		})
		kvStats.Executions += st.Executions
		kvStats.Points += st.Points
		for _, m := range st.Nondet {
			r.EngineError("nondeterminism (kv-executor part): " + m)
		}
		if st.Capped != "" {
			caps = append(caps, "kv-executor "+pt+": "+st.Capped)
		}
	}
	total.Executions += kvStats.Executions
	total.Points += kvStats.Points
	for _, pt := range jobs {
		pc, err := world.BuildChain(pt, 1)
		if err != nil {
			r.EngineError("producer chain " + pt + ": " + err.Error())
			continue
		}
		left := time.Until(deadline)
		if left <= 0 {
			caps = append(caps, "deadline reached before pattern "+pt)
			break
		}
		b := budgets
		if len(pt) >= 3 {
			b = budgets3 // chains of 3 blocks above genesis (thorough only): the quick tier's order budget
		}
		st := explore.Explore(explore.Config{Budgets: b, Deadline: left, ShardDepth: 2}, func(c *explore.Ctx) {
			o := body(t, c, pc)
			if o.fail != nil {
				r.Report(vf.Violation{Clause: o.fail.Clause, Tags: o.tags, Msg: fmt.Sprintf("%s\n chain: genesis+%q\n trace: %s", o.fail.Msg, pt, strings.Join(o.trace, " ")), Cost: len(o.trace), History: map[string]any{"Pattern": pt, "Choices": c.Choices()}})
				r.Outcome("fail:" + o.fail.Clause)
				return
			}
			r.Outcome(pt + ":" + strings.Join(o.trace, " "))
			if strings.Contains(strings.Join(o.trace, " "), "CRASH") && nSamples.Add(1) <= 4 {
				r.Sample(map[string]any{"chain": "genesis+" + pt, "trace": strings.Join(o.trace, " ")})
			}
		})
		total.Executions += st.Executions
		total.Points += st.Points
		for _, m := range st.Nondet {
			r.EngineError("nondeterminism: " + m)
		}
		if st.Capped != "" {
			caps = append(caps, pt+": "+st.Capped)
		}
	}
	// ingress level: DA-only full node, crash anywhere in block application, recovery by its own DA scan
	l2budgets := vf.Pick(r, map[string]int{"place": 1, "order": 1, "crash": 1}, map[string]int{"place": 2, "order": 1, "crash": 1})
	var l2 explore.Stats
	for _, pt := range ingressJobs {
		pc, err := world.BuildChain(pt+"e", 1)
		if err != nil {
			r.EngineError(err.Error())
			continue
		}
		left := time.Until(deadline)
		if left <= 0 {
			caps = append(caps, "deadline reached before ingress pattern "+pt)
			break
		}
		st := explore.Explore(explore.Config{Budgets: l2budgets, Deadline: left, ShardDepth: 2}, func(c *explore.Ctx) {
			o := ingressBody(t, c, pc)
			if o.fail != nil {
				r.Report(vf.Violation{Clause: o.fail.Clause, Tags: append(o.tags, "ingress-level"), Msg: fmt.Sprintf("[ingress level, chain genesis+%q] %s\n %s", pt, o.fail.Msg, strings.Join(o.trace, " ")), Cost: c.Cost(), History: map[string]any{"Pattern": pt, "Ingress": true, "Choices": c.Choices()}})
				r.Outcome("L2:fail:" + o.fail.Clause)
				return
			}
			r.Outcome("L2:" + pt + ":" + strings.Join(o.trace, " "))
			if strings.Contains(strings.Join(o.trace, " "), "CRASH") {
				r.Sample(map[string]any{"level": "ingress", "chain": "genesis+" + pt, "trace": strings.Join(o.trace, " ")})
			}
		})
		l2.Executions += st.Executions
		l2.Points += st.Points
		for _, m := range st.Nondet {
			r.EngineError("nondeterminism (ingress level): " + m)
		}
		if st.Capped != "" {
			caps = append(caps, "ingress "+pt+": "+st.Capped)
		}
	}
	fmt.Printf("C05 parts (this process): real-executor executions=%d points=%d; ingress executions=%d points=%d; main executions=%d points=%d\n", kvStats.Executions, kvStats.Points, l2.Executions, l2.Points, total.Executions-kvStats.Executions, total.Points-kvStats.Points)
	total.Executions += l2.Executions
	total.Points += l2.Points
	r.Finish(vf.Coverage{
		Evaluations: total.Executions, DistinctNontrivial: int64(r.DistinctOutcomes()), States: total.Executions, Transitions: total.Points,
		Rule:       "for every producer chain pattern (1..n blocks above genesis over {empty,A,B} without repeated non-empty lists) × 3 pre-crash delivery orders: every crash point among all durable writes of block application (recurring during recovery, budget `crash`), then the complete event set again in every order within the order budget; distinct = distinct traces. Real-executor part: the same histories with apps/testapp/kv.KVExecutor (own durable database, reopened by every life) as execution layer, for every chain of 1..kv_blocks blocks over {empty, A={k1=a,k2=a}, B={k1=b}} where the first letter is the block AT the initial height (so the first applied block may change the executor state while the node store has no state yet); crash points = every durable write of the node store AND every commit of the executor database",
		Exhaustive: true, Caps: caps,
		Bounds:     map[string]any{"blocks_above_genesis": nAbove, "patterns": len(jobs), "budgets": budgets, "budgets_chains_of_3_blocks": budgets3, "kv_executor": map[string]any{"kv_blocks_incl_initial": nKV, "patterns": len(kvJobs), "budgets": kvBudgets}},
	})
}
