// Package explore is the exhaustive enumerator: (1) deviation-bounded enumeration of choice sequences for a
// deterministic body (stateless model checking), (2) explicit-state breadth-first search over action histories
// with canonical-state deduplication. Both run the body on fresh instances; nothing is sampled.
package explore

import (
	"syscall"
	"fmt"
	"os"
	"runtime"
	"strconv"
	"sort"
	"strings"
	"sync"
	"sync/atomic"
	"time"
)

// Point is one recorded decision.
type Point struct {
	Class  string
	N      int
	Choice int
}

// Ctx is handed to the body; all nondeterminism must go through Choose.
type Ctx struct {
	prefix   []Point
	pts      []Point
	Aux      any
	Diverged string // non-empty: a replayed prefix did not meet the same decision points (uncaptured nondeterminism)
}

// NondetError is raised (as a panic) when a replayed prefix does not meet the same decision points.
type NondetError struct{ Msg string }

func (e NondetError) Error() string { return e.Msg }

// Choose returns the decision for a point with n alternatives (0 = default). Points with n<=1 are not recorded.
func (c *Ctx) Choose(class string, n int) int {
	if n <= 1 {
		return 0
	}
	i := len(c.pts)
	ch := 0
	if i < len(c.prefix) {
		p := c.prefix[i]
		if p.Class != class || p.N != n {
			// Choose may be called on goroutines of the code under test, where a panic cannot be recovered by
			// the explorer: record the divergence (reported as an engine error, never as a verdict) and go on.
			if c.Diverged == "" {
				c.Diverged = fmt.Sprintf("replay divergence at point %d: recorded %s/%d, now %s/%d", i, p.Class, p.N, class, n)
			}
			c.prefix = c.prefix[:i]
			ch = 0
		} else {
			ch = p.Choice
		}
	}
	c.pts = append(c.pts, Point{class, n, ch})
	return ch
}

// Choices returns the decisions taken so far (for replay artefacts).
func (c *Ctx) Choices() []Point { return append([]Point(nil), c.pts...) }

// Cost is the number of deviations taken so far.
func (c *Ctx) Cost() int {
	n := 0
	for _, p := range c.pts {
		n += cost(p)
	}
	return n
}

func (c *Ctx) String() string {
	var sb strings.Builder
	for _, p := range c.pts {
		if p.Choice != 0 {
			fmt.Fprintf(&sb, "%s:%d/%d ", p.Class, p.Choice, p.N)
		} else {
			sb.WriteString(". ")
		}
	}
	return sb.String()
}

func cost(p Point) int {
	if p.Choice == 0 {
		return 0
	}
	if p.Class == "sched" {
		return p.Choice // delay bounding: picking the k-th enabled thread costs k
	}
	return 1
}

// Config bounds the enumeration.
type Config struct {
	Budgets  map[string]int // per class: maximal total cost of deviations; a class not listed is unbounded
	Total    int            // if >0: maximal total cost over all classes not listed in Free
	Free     []string       // classes that do not count towards Total (configuration dimensions)
	Workers  int
	MaxExec  int64         // cap (0 = none); hitting it is reported, never silent
	Deadline time.Duration // cap (0 = none)
	Serial   bool          // run bodies one at a time (bodies that need the whole process)
	// ShardDepth (process-level sharding, VERIF_SHARD=i/n): work items with exactly ShardDepth deviations are dealt out
	// over the shards by a hash of their choices (choices of Free classes - configuration dimensions - do not
	// count as deviations here, so every configuration's subtree is spread over all shards); items with fewer deviations
	// are executed by every shard (they are needed to generate the tree below them) but counted only by the shard that
	// owns them. 0 = deal the children of the root execution round-robin in generation order (legacy).
	ShardDepth int
	// StuckAfter/OnStuck: livelock detection. A body that has not returned after StuckAfter of real time is handed to
	// OnStuck together with the CPU time the process burnt meanwhile (a busy loop burns CPU, a starved machine or a
	// harness deadlock does not). The stuck goroutine cannot be ended, so OnStuck must finish the run and exit the process.
	StuckAfter time.Duration
	OnStuck    func(c *Ctx, waited, cpu time.Duration)
}

// Watch starts the livelock monitor for one execution; close the returned channel when the body has returned.
func Watch(c *Ctx, after time.Duration, onStuck func(c *Ctx, waited, cpu time.Duration)) chan struct{} {
	finished := make(chan struct{})
	go func() {
		t0, cpu0 := time.Now(), processCPU()
		tm := time.NewTimer(after)
		defer tm.Stop()
		select {
		case <-finished:
		case <-tm.C:
			onStuck(c, time.Since(t0), processCPU()-cpu0)
		}
	}()
	return finished
}

// BusyGoroutine samples the goroutine states of this process: it reports true when in every one of the samples some
// goroutine other than the caller is running or runnable inside the same function (a busy loop never blocks; a
// deadlocked or merely slow execution shows blocked goroutines or moves on). where = the top frames of that goroutine.
func BusyGoroutine(samples int, gap time.Duration) (busy bool, where string) {
	common := map[string]int{}
	var firstWhere = map[string]string{}
	buf := make([]byte, 4<<20)
	for i := 0; i < samples; i++ {
		if i > 0 {
			time.Sleep(gap)
		}
		n := runtime.Stack(buf, true)
		seen := map[string]bool{}
		for _, g := range strings.Split(string(buf[:n]), "\n\n") {
			lines := strings.Split(g, "\n")
			if len(lines) < 3 || !strings.HasPrefix(lines[0], "goroutine ") {
				continue
			}
			hdr := lines[0]
			if !strings.Contains(hdr, "[running") && !strings.Contains(hdr, "[runnable") {
				continue
			}
			if strings.Contains(g, "explore.BusyGoroutine") {
				continue
			}
			// key: goroutine id + the outermost non-runtime frames (stable while it spins in one loop)
			id := strings.Fields(hdr)[1]
			var fr []string
			for _, l := range lines[1:] {
				if strings.HasPrefix(l, "\t") || strings.HasPrefix(l, "runtime.") || strings.HasPrefix(l, "created by") {
					continue
				}
				if k := strings.LastIndex(l, "("); k > 0 {
					l = l[:k]
				}
				fr = append(fr, l)
			}
			if len(fr) == 0 {
				continue
			}
			key := id + " " + fr[len(fr)-1]
			if !seen[key] {
				seen[key] = true
				common[key]++
				if len(fr) > 6 {
					fr = fr[:6]
				}
				firstWhere[key] = strings.Join(fr, " <- ")
			}
		}
	}
	for k, v := range common {
		if v == samples {
			return true, firstWhere[k]
		}
	}
	return false, ""
}

func processCPU() time.Duration {
	var ru syscall.Rusage
	if syscall.Getrusage(syscall.RUSAGE_SELF, &ru) != nil {
		return 0
	}
	return time.Duration(ru.Utime.Nano() + ru.Stime.Nano())
}

type Stats struct {
	Executions int64
	Points     int64
	MaxDepth   int64
	Unowned    int64  // executions repeated in this shard only to generate the tree below them (counted by their owner shard)
	Capped     string // non-empty when a cap ended the run early
	Nondet     []string
	NondetPre  [][]Point // the prefixes whose replay diverged (for debugging the harness)
}

func deviations(pts []Point, free map[string]bool) int {
	n := 0
	for _, p := range pts {
		if p.Choice != 0 && !free[p.Class] {
			n++
		}
	}
	return n
}

// ownerOf maps a work item to the shard that owns it (FNV-1a over its choices; the root belongs to shard 0).
func ownerOf(pts []Point, n int) int {
	if len(pts) == 0 {
		return 0
	}
	h := uint64(14695981039346656037)
	mix := func(b byte) { h ^= uint64(b); h *= 1099511628211 }
	for _, p := range pts {
		for i := 0; i < len(p.Class); i++ {
			mix(p.Class[i])
		}
		mix(byte(p.N))
		mix(byte(p.N >> 8))
		mix(byte(p.Choice))
		mix(byte(p.Choice >> 8))
		mix(0xff)
	}
	return int(h % uint64(n))
}

// ReplayOne runs the body once on a fixed choice list.
func ReplayOne(choices []Point, body func(*Ctx)) *Ctx {
	c := &Ctx{prefix: choices}
	body(c)
	return c
}

// Explore enumerates every choice sequence of body within the budgets.
func Explore(cfg Config, body func(*Ctx)) Stats {
	if cfg.Workers <= 0 {
		cfg.Workers = runtime.NumCPU()
		if w, err := strconv.Atoi(os.Getenv("VERIF_WORKERS")); err == nil && w > 0 {
			cfg.Workers = w
		}
	}
	if cfg.Serial {
		cfg.Workers = 1
	}
	if m, err := strconv.ParseInt(os.Getenv("VERIF_MAXEXEC"), 10, 64); err == nil && m > 0 {
		cfg.MaxExec = m // development aid; the cap is reported like any other
	}
	shardI, shardN := 0, 1
	if sp := os.Getenv("VERIF_SHARD"); sp != "" {
		fmt.Sscanf(sp, "%d/%d", &shardI, &shardN)
		if shardN < 1 {
			shardI, shardN = 0, 1
		}
	}
	var (
		mu      sync.Mutex
		cond    = sync.NewCond(&mu)
		stack   = [][]Point{nil}
		active  int
		st      Stats
		stop    atomic.Bool
		started = time.Now()
	)
	free := map[string]bool{}
	for _, f := range cfg.Free {
		free[f] = true
	}
	fits := func(pts []Point) bool {
		per := map[string]int{}
		tot := 0
		for _, p := range pts {
			k := cost(p)
			per[p.Class] += k
			if !free[p.Class] {
				tot += k
			}
		}
		if cfg.Total > 0 && tot > cfg.Total {
			return false
		}
		for cl, v := range per {
			if b, ok := cfg.Budgets[cl]; ok && v > b {
				return false
			}
		}
		return true
	}
	worker := func() {
		for {
			mu.Lock()
			for len(stack) == 0 && active > 0 && !stop.Load() {
				cond.Wait()
			}
			if stop.Load() || (len(stack) == 0 && active == 0) {
				mu.Unlock()
				cond.Broadcast()
				return
			}
			prefix := stack[len(stack)-1]
			stack = stack[:len(stack)-1]
			active++
			mu.Unlock()

			c := &Ctx{prefix: prefix}
			var finished chan struct{}
			if cfg.StuckAfter > 0 && cfg.OnStuck != nil {
				finished = Watch(c, cfg.StuckAfter, cfg.OnStuck)
			}
			func() {
				if finished != nil {
					defer close(finished)
				}
				defer func() {
					if e := recover(); e != nil {
						if ne, ok := e.(NondetError); ok {
							mu.Lock()
							if len(st.Nondet) < 5 {
								st.Nondet = append(st.Nondet, ne.Msg)
							}
							mu.Unlock()
							return
						}
						panic(e)
					}
				}()
				body(c)
			}()
			if c.Diverged != "" {
				mu.Lock()
				if len(st.Nondet) < 5 {
					st.Nondet = append(st.Nondet, c.Diverged)
					st.NondetPre = append(st.NondetPre, prefix)
				}
				mu.Unlock()
			} else if len(c.pts) < len(prefix) {
				mu.Lock()
				if len(st.Nondet) < 5 {
					st.Nondet = append(st.Nondet, fmt.Sprintf("replay ended after %d points, prefix had %d", len(c.pts), len(prefix)))
				}
				mu.Unlock()
			}
			var children [][]Point
			for i := len(prefix); i < len(c.pts); i++ {
				p := c.pts[i]
				for alt := p.N - 1; alt >= 1; alt-- { // pushed in reverse so that the simplest alternative is popped first
					child := make([]Point, i+1)
					copy(child, c.pts[:i])
					child[i] = Point{p.Class, p.N, alt}
					if fits(child) {
						children = append(children, child)
					}
				}
			}
			owned := true
			if shardN > 1 && cfg.ShardDepth >= 1 {
				if deviations(prefix, free) < cfg.ShardDepth {
					owned = ownerOf(prefix, shardN) == shardI
				}
				kept := children[:0]
				for _, ch := range children {
					if deviations(ch, free) != cfg.ShardDepth || ownerOf(ch, shardN) == shardI {
						kept = append(kept, ch)
					}
				}
				children = kept
			} else if len(prefix) == 0 && shardN > 1 {
				// process-level sharding: the subtrees below the root execution are dealt out round-robin in their
				// (deterministic) generation order; every shard runs the root execution itself
				kept := children[:0]
				for k, ch := range children {
					if k%shardN == shardI {
						kept = append(kept, ch)
					}
				}
				children = kept
			}
			mu.Lock()
			if owned {
				st.Executions++
				st.Points += int64(len(c.pts))
			} else {
				st.Unowned++
			}
			if int64(len(c.pts)) > st.MaxDepth {
				st.MaxDepth = int64(len(c.pts))
			}
			// deeper branch points first on the stack bottom, so order: push children of early points last
			for j := len(children) - 1; j >= 0; j-- {
				stack = append(stack, children[j])
			}
			active--
			if cfg.MaxExec > 0 && st.Executions >= cfg.MaxExec && (len(stack) > 0 || active > 0) {
				st.Capped = fmt.Sprintf("max executions %d reached", cfg.MaxExec)
				stop.Store(true)
			}
			if cfg.Deadline > 0 && time.Since(started) > cfg.Deadline && (len(stack) > 0 || active > 0) {
				st.Capped = fmt.Sprintf("deadline %s reached after %d executions", cfg.Deadline, st.Executions)
				stop.Store(true)
			}
			mu.Unlock()
			cond.Broadcast()
		}
	}
	var wg sync.WaitGroup
	for i := 0; i < cfg.Workers; i++ {
		wg.Add(1)
		go func() { defer wg.Done(); worker() }()
	}
	wg.Wait()
	return st
}

// ---------------------------------------------------------------------------------------------------------------
// Explicit-state search over action histories.

// Step is what running one history reports about its last action.
type Step struct {
	Key   string // canonical state after the history ("" = never merge)
	Prune bool   // do not extend this history (e.g. action not enabled, or terminal)
}

type BFSConfig struct {
	Depth    int
	Actions  int // size of the action alphabet; run decides which are enabled
	Workers  int
	MaxNodes int64
	Deadline time.Duration
}

type BFSStats struct {
	States      int64 // distinct canonical states
	Transitions int64 // histories executed
	DepthDone   int   // deepest level completely expanded
	Capped      string
	PerLevel    []int64
}

// BFS expands histories level by level. run executes the whole history on a fresh instance (live objects are not
// cloned) and checks its oracle; states reached by different histories are merged when their canonical keys agree.
func BFS(cfg BFSConfig, run func(hist []int) Step) BFSStats {
	if cfg.Workers <= 0 {
		cfg.Workers = runtime.NumCPU()
	}
	var st BFSStats
	seen := map[string]bool{}
	frontier := [][]int{{}}
	started := time.Now()
	first := run(nil)
	if first.Key != "" {
		seen[first.Key] = true
	}
	st.States = 1
	for d := 1; d <= cfg.Depth && len(frontier) > 0; d++ {
		type res struct {
			hist []int
			step Step
		}
		var jobs [][]int
		for _, h := range frontier {
			for a := 0; a < cfg.Actions; a++ {
				nh := make([]int, len(h)+1)
				copy(nh, h)
				nh[len(h)] = a
				jobs = append(jobs, nh)
			}
		}
		if cfg.MaxNodes > 0 && st.Transitions+int64(len(jobs)) > cfg.MaxNodes {
			st.Capped = fmt.Sprintf("node cap %d reached at depth %d", cfg.MaxNodes, d)
			break
		}
		results := make([]res, len(jobs))
		var next atomic.Int64
		var wg sync.WaitGroup
		var timedOut atomic.Bool
		for w := 0; w < cfg.Workers; w++ {
			wg.Add(1)
			go func() {
				defer wg.Done()
				for {
					i := int(next.Add(1) - 1)
					if i >= len(jobs) {
						return
					}
					if cfg.Deadline > 0 && time.Since(started) > cfg.Deadline {
						timedOut.Store(true)
						return
					}
					results[i] = res{jobs[i], run(jobs[i])}
				}
			}()
		}
		wg.Wait()
		if timedOut.Load() {
			st.Capped = fmt.Sprintf("deadline %s reached at depth %d", cfg.Deadline, d)
			break
		}
		st.Transitions += int64(len(jobs))
		frontier = frontier[:0]
		// jobs are generated in lexicographic order, so merging is deterministic
		var lvl int64
		for _, r := range results {
			if r.step.Prune {
				continue
			}
			if r.step.Key != "" {
				if seen[r.step.Key] {
					continue
				}
				seen[r.step.Key] = true
			}
			st.States++
			lvl++
			frontier = append(frontier, r.hist)
		}
		st.PerLevel = append(st.PerLevel, lvl)
		st.DepthDone = d
	}
	return st
}

// Permutations calls f with every permutation of 0..n-1 (lexicographic order).
func Permutations(n int, f func([]int)) {
	p := make([]int, n)
	for i := range p {
		p[i] = i
	}
	for {
		f(append([]int(nil), p...))
		i := n - 2
		for i >= 0 && p[i] > p[i+1] {
			i--
		}
		if i < 0 {
			return
		}
		j := n - 1
		for p[j] < p[i] {
			j--
		}
		p[i], p[j] = p[j], p[i]
		sort.Ints(p[i+1:])
	}
}
