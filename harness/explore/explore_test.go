package explore

import "testing"

func TestCounts(t *testing.T) {
	for _, k := range []int{5, 10} {
		st := Explore(Config{Budgets: map[string]int{"crash": 2}}, func(c *Ctx) {
			for i := 0; i < k; i++ {
				c.Choose("crash", 2)
			}
		})
		want := int64(1 + k + k*(k-1)/2)
		if st.Executions != want {
			t.Fatalf("k=%d executions=%d want %d", k, st.Executions, want)
		}
	}
	st := Explore(Config{Budgets: map[string]int{"a": 1}}, func(c *Ctx) {
		for i := 0; i < 3; i++ {
			c.Choose("a", 3)
			c.Choose("b", 2)
		}
	})
	// b unbounded: 2^3 * (1 + 3*2) = 56
	if st.Executions != 56 {
		t.Fatalf("executions=%d want 56", st.Executions)
	}
}
