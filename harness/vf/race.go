package vf

import (
	"fmt"
	"os"
	"os/exec"
	"path/filepath"
	"regexp"
	"sort"
	"strings"
)

// RacePass runs the free-running -race supplement built by the check script (VERIF_RACE_BIN), if there is one, and turns
// every race report that involves code of the repository into a violation of clause "data-race". It SAMPLES
// interleavings and therefore decides nothing; it is recorded in the evidence as a supplement, never as coverage of the
// enumeration. A report that involves harness code only is a machinery error.
func (r *Run) RacePass(rounds int, repoMarker string) {
	if r.replayIn != "" {
		return
	}
	r.RacePassAlways(rounds, repoMarker)
}

// RacePassAlways is RacePass for a replay request of a recorded race (re-runs the sampling pass).
func (r *Run) RacePassAlways(rounds int, repoMarker string) {
	bin := os.Getenv("VERIF_RACE_BIN")
	if bin == "" || r.IsShard() {
		return
	}
	dir, err := os.MkdirTemp("", "race")
	if err != nil {
		r.EngineError(err.Error())
		return
	}
	cmd := exec.Command(bin, "-test.run", "^TestRaceFree$", "-test.timeout", "0")
	cmd.Env = append(os.Environ(), "GORACE=log_path="+filepath.Join(dir, "race")+" halt_on_error=0", fmt.Sprintf("VERIF_RACE_ROUNDS=%d", rounds))
	out, _ := cmd.CombinedOutput()
	text := string(out)
	m := regexp.MustCompile(`RACE-PASS (.*)`).FindStringSubmatch(text)
	files, _ := filepath.Glob(filepath.Join(dir, "race.*"))
	var reports []string
	for _, f := range files {
		bz, _ := os.ReadFile(f)
		for _, rep := range strings.Split(string(bz), "==================") {
			if strings.Contains(rep, "WARNING: DATA RACE") {
				reports = append(reports, strings.TrimSpace(rep))
			}
		}
	}
	if m == nil && len(reports) == 0 {
		tail := text
		if len(tail) > 1500 {
			tail = tail[len(tail)-1500:]
		}
		r.EngineError("the -race supplement did not complete: " + tail)
		return
	}
	fn := regexp.MustCompile(`(?m)^  (\S+)\(\)$`)
	seen := map[string]bool{}
	for _, rep := range reports {
		// the two accesses: first frames of the first two stacks
		parts := strings.SplitN(rep, "\n\nGoroutine ", 2)
		var repoFrames []string
		for _, f := range fn.FindAllStringSubmatch(parts[0], -1) {
			if strings.Contains(f[1], repoMarker) {
				repoFrames = append(repoFrames, f[1])
			}
		}
		if len(repoFrames) == 0 {
			r.EngineError("race report that involves harness code only:\n" + rep)
			continue
		}
		key := repoFrames[0]
		if seen[key] {
			continue
		}
		seen[key] = true
		path := filepath.Join(r.replayDir(), "race-"+sanitize(key)+".txt")
		os.MkdirAll(filepath.Dir(path), 0o755)
		os.WriteFile(path, []byte(rep+"\n"), 0o644)
		short := repoFrames
		if len(short) > 4 {
			short = short[:4]
		}
		r.Report(Violation{Clause: "data-race", Tags: []string{"race-detector", "free-running-supplement", "at:" + key}, Msg: "the race detector reports unsynchronised accesses in a free-running run of the concurrent activities (report in " + path + "): " + strings.Join(short, " <- "), Cost: 0, History: map[string]any{"RaceReport": rep}})
	}
	if r.Extra == nil {
		r.Extra = map[string]any{}
	}
	keys := make([]string, 0, len(seen))
	for k := range seen {
		keys = append(keys, k)
	}
	sort.Strings(keys)
	stats := ""
	if m != nil {
		stats = m[1]
	}
	r.Extra["race_supplement"] = map[string]any{"kind": "free-running executions under the Go race detector (sampling; not part of the enumeration, decides nothing)", "stats": stats, "rounds": rounds, "distinct_races": keys}
	os.RemoveAll(dir)
}

func sanitize(s string) string {
	return regexp.MustCompile(`[^A-Za-z0-9_.-]+`).ReplaceAllString(s, "_")
}
