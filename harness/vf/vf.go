// Package vf is the reporting side of every check: tier/seed handling, violation collection with
// known-finding classification, replay artefacts, evidence files and the exit protocol.
package vf

import (
	"bytes"
	"crypto/sha256"
	"encoding/hex"
	"encoding/json"
	"fmt"
	"os"
	"os/exec"
	"path/filepath"
	"sort"
	"strconv"
	"strings"
	"sync"
	"time"
)

// Root is the /verif directory (overridable for background runs from a snapshot).
func Root() string {
	if r := os.Getenv("VERIF_ROOT"); r != "" {
		return r
	}
	return "/verif"
}

// Finding is one entry of known_findings.json.
type Finding struct {
	Property string `json:"property"`
	Clause   string `json:"clause"`
	Trigger  string `json:"trigger"`
	Status   string `json:"status"` // "known" | "fixed"
	Commit   string `json:"commit,omitempty"`
	Text     string `json:"text"`
}

// Violation is one oracle failure on one explored execution.
type Violation struct {
	Clause  string   `json:"clause"`  // which clause of the property's oracle failed
	Tags    []string `json:"tags"`    // history features (trigger predicates) that hold on the failing history
	Msg     string   `json:"msg"`     // human readable
	Cost    int      `json:"cost"`    // deviations / length (smaller is simpler)
	History any      `json:"history"` // whatever the check needs to replay it
}

type Run struct {
	ID    string
	Tier  string
	Seed  int64
	Level string

	start time.Time
	mu    sync.Mutex

	known     []Finding
	viol      map[string]*Violation // unexplained, by clause (smallest cost kept)
	violCount int
	knownHits map[int]int // index into known -> count
	knownEx   map[int]*Violation
	samples   []any
	outcomes  map[string]int
	engineErr []string
	byTag     map[string]int
	byTagEx   map[string]Violation
	Assume    []string
	Extra     map[string]any // added to the coverage section of the evidence (parent process only)
	replayIn  string
	shardOut  string         // child mode: write the raw result here instead of evidence
	allViol   map[string]*Violation // child mode: every (clause,tags) class, smallest example
	allCount  map[string]int
}

// Start reads VERIF_TIER / VERIF_SEED / VERIF_REPLAY and the known findings of the property.
func Start(id, level string) *Run {
	r := &Run{ID: id, Level: level, start: time.Now(), viol: map[string]*Violation{}, knownHits: map[int]int{}, knownEx: map[int]*Violation{}, outcomes: map[string]int{}}
	r.Tier = os.Getenv("VERIF_TIER")
	if r.Tier != "thorough" {
		r.Tier = "quick"
	}
	if s := os.Getenv("VERIF_SEED"); s != "" {
		r.Seed, _ = strconv.ParseInt(s, 10, 64)
	}
	r.replayIn = os.Getenv("VERIF_REPLAY")
	r.shardOut = os.Getenv("VERIF_SHARD_OUT")
	bz, err := os.ReadFile(filepath.Join(Root(), "known_findings.json"))
	if err == nil {
		var all []Finding
		if err := json.Unmarshal(bz, &all); err != nil {
			r.EngineError("known_findings.json does not parse: " + err.Error())
		}
		for _, f := range all {
			if f.Property == id && f.Status == "known" {
				r.known = append(r.known, f)
			}
		}
	}
	return r
}

func (r *Run) Thorough() bool { return r.Tier == "thorough" }

// IsShard is true in a child process of RunShards.
func (r *Run) IsShard() bool { return r.shardOut != "" }

// FirstShard is true for an unsharded run and for shard 0 of a sharded one (work that must happen once).
func (r *Run) FirstShard() bool {
	sp := os.Getenv("VERIF_SHARD")
	return sp == "" || strings.HasPrefix(sp, "0/")
}

// Pick returns q in the quick tier and t in the thorough tier.
func Pick[T any](r *Run, q, t T) T {
	if r.Thorough() {
		return t
	}
	return q
}

// ReplayPath is non-empty when the check is asked to replay one recorded violation.
func (r *Run) ReplayPath() string { return r.replayIn }

// LoadReplay decodes the history of a replay artefact into v.
func (r *Run) LoadReplay(v any) (clause string, err error) {
	bz, err := os.ReadFile(r.replayIn)
	if err != nil {
		return "", err
	}
	var f struct {
		Clause  string          `json:"clause"`
		History json.RawMessage `json:"history"`
	}
	if err := json.Unmarshal(bz, &f); err != nil {
		return "", err
	}
	return f.Clause, json.Unmarshal(f.History, v)
}

// EngineError records a failure of the machinery itself (exit code 2, never a verdict).
func (r *Run) EngineError(msg string) {
	r.mu.Lock()
	defer r.mu.Unlock()
	if len(r.engineErr) < 20 {
		r.engineErr = append(r.engineErr, msg)
	}
}

// Outcome counts distinct observed outcomes (vacuity guard: one outcome from many executions means nothing collided).
func (r *Run) Outcome(key string) {
	r.mu.Lock()
	r.outcomes[key]++
	r.mu.Unlock()
}

func (r *Run) DistinctOutcomes() int {
	r.mu.Lock()
	defer r.mu.Unlock()
	return len(r.outcomes)
}

// Sample keeps up to 6 examples of explored cases for the evidence file.
func (r *Run) Sample(x any) {
	r.mu.Lock()
	if len(r.samples) < 6 {
		r.samples = append(r.samples, x)
	}
	r.mu.Unlock()
}

func has(tags []string, t string) bool {
	for _, x := range tags {
		if x == t {
			return true
		}
	}
	return false
}

// Report records a violation. It is classified against the known findings: an entry matches when the clause is
// equal and the entry's trigger is one of the violation's tags.
func (r *Run) Report(v Violation) {
	r.mu.Lock()
	defer r.mu.Unlock()
	if r.shardOut != "" {
		if r.allViol == nil {
			r.allViol, r.allCount = map[string]*Violation{}, map[string]int{}
		}
		k := v.Clause + " " + fmt.Sprint(v.Tags)
		r.allCount[k]++
		if old := r.allViol[k]; old == nil || v.Cost < old.Cost {
			vv := v
			r.allViol[k] = &vv
		}
		return
	}
	for i, f := range r.known {
		if f.Clause == v.Clause && has(v.Tags, f.Trigger) {
			r.knownHits[i]++
			if old := r.knownEx[i]; old == nil || v.Cost < old.Cost {
				vv := v
				r.knownEx[i] = &vv
			}
			return
		}
	}
	r.violCount++
	if r.byTag == nil {
		r.byTag = map[string]int{}
	}
	k := v.Clause + " " + fmt.Sprint(v.Tags)
	r.byTag[k]++
	if r.byTagEx == nil {
		r.byTagEx = map[string]Violation{}
	}
	if old, ok := r.byTagEx[k]; !ok || v.Cost < old.Cost {
		r.byTagEx[k] = v
	}
	if old := r.viol[v.Clause]; old == nil || v.Cost < old.Cost {
		vv := v
		r.viol[v.Clause] = &vv
	}
}

func (r *Run) Violations() int {
	r.mu.Lock()
	defer r.mu.Unlock()
	return r.violCount
}

// Coverage is what the run measured.
type Coverage struct {
	Evaluations        int64          // executions run
	DistinctNontrivial int64          // measured, by Rule
	Rule               string         // how cases are enumerated and what counts as distinct/non-trivial
	States             int64          // canonical states (explicit-state searches) or distinct end states
	Transitions        int64          // transitions / decision points taken
	Exhaustive         bool           // the bounded space was enumerated completely
	Bounds             map[string]any // bounds that were completed
	Caps               []string       // caps that were hit (then Exhaustive must be false)
	Extra              map[string]any
}

func (r *Run) replayDir() string {
	dir := filepath.Join(Root(), "replays", r.ID)
	if d := os.Getenv("VERIF_EVIDENCE_DIR"); d != "" {
		dir = filepath.Join(d, "replays")
	}
	return dir
}

func (r *Run) writeReplay(v *Violation) string {
	dir := r.replayDir()
	_ = os.MkdirAll(dir, 0o755)
	bz, _ := json.MarshalIndent(map[string]any{"property": r.ID, "clause": v.Clause, "tags": v.Tags, "msg": v.Msg, "cost": v.Cost, "history": v.History}, "", " ")
	h := sha256.Sum256(bz)
	p := filepath.Join(dir, hex.EncodeToString(h[:6])+".json")
	_ = os.WriteFile(p, bz, 0o644)
	return p
}

// Finish writes the evidence file, prints KNOWN-FINDING / VIOLATION lines and exits (0 held, 1 violation, 2 engine error).
func (r *Run) Finish(c Coverage) {
	r.mu.Lock()
	defer r.mu.Unlock()
	if r.shardOut != "" {
		r.writeShard(c)
		return
	}
	wall := time.Since(r.start).Seconds()
	cov := map[string]any{
		"evaluations":                   c.Evaluations,
		"distinct_nontrivial":           c.DistinctNontrivial,
		"rule":                          c.Rule,
		"samples":                       r.samples,
		"states":                        c.States,
		"transitions":                   c.Transitions,
		"traces_validated_against_impl": c.Evaluations, // every explored trace is an implementation trace (no separate model)
		"exhaustive":                    c.Exhaustive && len(c.Caps) == 0,
		"bounds":                        c.Bounds,
		"caps_hit":                      c.Caps,
		"distinct_outcomes":             len(r.outcomes),
	}
	for k, v := range c.Extra {
		cov[k] = v
	}
	for k, v := range r.Extra {
		cov[k] = v
	}
	if _, ok := r.Extra["race_supplement"]; ok {
		r.Assume = append(r.Assume, "supplement outside the enumeration: the same activities run free (no scheduler, no lock shim, all cores) under the Go race detector for a small grid of configurations (coverage.race_supplement); this SAMPLES interleavings and decides nothing, but every race report that involves repository code is reported as a violation of clause data-race")
	}
	if len(r.samples) == 0 {
		cov["samples"] = []any{"(none recorded)"}
	}
	var kf []map[string]any
	idx := make([]int, 0, len(r.knownHits))
	for i := range r.knownHits {
		idx = append(idx, i)
	}
	sort.Ints(idx)
	for _, i := range idx {
		f := r.known[i]
		kf = append(kf, map[string]any{"clause": f.Clause, "trigger": f.Trigger, "histories": r.knownHits[i], "example": r.knownEx[i]})
	}
	cov["known_findings_observed"] = kf
	ev := map[string]any{
		"property_id": r.ID,
		"tier":        r.Tier,
		"seed":        r.Seed,
		"level":       r.Level,
		"coverage":    cov,
		"assumptions": r.Assume,
		"wall_s":      wall,
		"violations":  r.violCount,
	}
	if len(r.engineErr) > 0 {
		ev["engine_errors"] = r.engineErr
	}
	if r.replayIn == "" {
		dir := filepath.Join(Root(), "evidence")
		if d := os.Getenv("VERIF_EVIDENCE_DIR"); d != "" {
			dir = d
		}
		_ = os.MkdirAll(dir, 0o755)
		bz, _ := json.MarshalIndent(ev, "", " ")
		if err := os.WriteFile(filepath.Join(dir, r.ID+".json"), bz, 0o644); err != nil {
			fmt.Println("ENGINE-ERROR: cannot write evidence:", err)
			os.Exit(2)
		}
	}
	fmt.Printf("%s %s: executions=%d states=%d transitions=%d distinct=%d outcomes=%d exhaustive=%v caps=%v wall=%.1fs\n",
		r.ID, r.Tier, c.Evaluations, c.States, c.Transitions, c.DistinctNontrivial, len(r.outcomes), c.Exhaustive && len(c.Caps) == 0, c.Caps, wall)
	for _, i := range idx {
		f := r.known[i]
		fmt.Printf("KNOWN-FINDING: property=%s clause=%s trigger=%s (%d histories) %s\n", r.ID, f.Clause, f.Trigger, r.knownHits[i], f.Text)
	}
	if len(r.engineErr) > 0 {
		for _, e := range r.engineErr {
			fmt.Println("ENGINE-ERROR:", e)
		}
		os.Exit(2)
	}
	if r.violCount > 0 {
		if os.Getenv("VERIF_VERBOSE") != "" {
			ks := make([]string, 0, len(r.byTag))
			for k := range r.byTag {
				ks = append(ks, k)
			}
			sort.Strings(ks)
			for _, k := range ks {
				fmt.Printf("  unexplained: %s x%d\n", k, r.byTag[k])
				if os.Getenv("VERIF_VERBOSE") == "2" {
					m := r.byTagEx[k].Msg
					if len(m) > 700 {
						m = m[:700]
					}
					fmt.Printf("      e.g. %s\n", m)
				}
			}
		}
		clauses := make([]string, 0, len(r.viol))
		for k := range r.viol {
			clauses = append(clauses, k)
		}
		sort.Strings(clauses)
		for _, k := range clauses {
			v := r.viol[k]
			p := r.writeReplay(v)
			fmt.Printf("  clause=%s tags=%v cost=%d: %s\n", v.Clause, v.Tags, v.Cost, v.Msg)
			fmt.Printf("VIOLATION property=%s replay=%s\n", r.ID, p)
		}
		if os.Getenv("VERIF_NOEXIT") != "" { // development aid (profiling)
			return
		}
		os.Exit(1)
	}
	// exit 0: return normally (the testing package forbids os.Exit(0) inside a test)
}

// ---------------------------------------------------------------------------------------------------------------
// Process-level sharding: bubble-heavy checks scale far better over processes than over goroutines.

type shardResult struct {
	Cov       Coverage
	Viol      []Violation
	Counts    []int
	Samples   []any
	Outcomes  []string
	EngineErr []string
	Assume    []string
}

// Abort finishes the run from a monitor goroutine while an execution is stuck for good: the evidence (or the shard
// result) is written, the verdict printed, and the process exits (a shard with code 3, which its parent accepts).
func (r *Run) Abort(c Coverage) {
	r.Finish(c)
	if r.shardOut != "" {
		os.Exit(3)
	}
	os.Exit(2) // unreachable when a violation or engine error was reported (Finish exits 1 / 2 itself)
}

func (r *Run) writeShard(c Coverage) {
	res := shardResult{Cov: c, Samples: r.samples, EngineErr: r.engineErr, Assume: r.Assume}
	for k, v := range r.allViol {
		res.Viol = append(res.Viol, *v)
		res.Counts = append(res.Counts, r.allCount[k])
	}
	for k := range r.outcomes {
		res.Outcomes = append(res.Outcomes, k)
	}
	bz, err := json.Marshal(res)
	if err == nil {
		err = os.WriteFile(r.shardOut, bz, 0o644)
	}
	if err != nil {
		fmt.Println("ENGINE-ERROR: shard cannot write its result:", err)
		os.Exit(2)
	}
}

// RunShards re-executes this test binary n times (one shard of the exploration each, GOMAXPROCS=1), merges the raw
// results, classifies them against the known findings and finishes the run. It returns false when the caller is a
// shard itself (or sharding is off) and has to do the work.
func (r *Run) RunShards(n int) bool {
	if r.shardOut != "" || r.replayIn != "" || n <= 1 || os.Getenv("VERIF_NOSHARD") != "" {
		return false
	}
	dir, err := os.MkdirTemp("", "shards")
	if err != nil {
		r.EngineError(err.Error())
		return false
	}
	defer os.RemoveAll(dir)
	type job struct {
		cmd *exec.Cmd
		out string
		buf *bytes.Buffer
	}
	var jobs []job
	for i := 0; i < n; i++ {
		out := filepath.Join(dir, fmt.Sprintf("shard-%d.json", i))
		cmd := exec.Command(os.Args[0], "-test.run", "^TestCheck$", "-test.timeout", "0")
		cmd.Env = append(os.Environ(), fmt.Sprintf("VERIF_SHARD=%d/%d", i, n), "VERIF_SHARD_OUT="+out, "GOMAXPROCS=1", "VERIF_WORKERS=1")
		buf := &bytes.Buffer{}
		cmd.Stdout, cmd.Stderr = buf, buf
		if err := cmd.Start(); err != nil {
			r.EngineError("cannot start shard: " + err.Error())
			continue
		}
		jobs = append(jobs, job{cmd, out, buf})
	}
	var merged Coverage
	first := true
	for i, j := range jobs {
		err := j.cmd.Wait()
		bz, rerr := os.ReadFile(j.out)
		if ee, ok := err.(*exec.ExitError); ok && ee.ExitCode() == 3 && rerr == nil {
			err = nil // the shard aborted itself after reporting (a stuck execution cannot be ended from inside)
		}
		if err != nil || rerr != nil {
			tail := j.buf.String()
			if len(tail) > 1500 {
				tail = tail[len(tail)-1500:]
			}
			r.EngineError(fmt.Sprintf("shard %d failed (%v, %v): %s", i, err, rerr, tail))
			continue
		}
		var res shardResult
		if err := json.Unmarshal(bz, &res); err != nil {
			r.EngineError(fmt.Sprintf("shard %d result does not parse: %v", i, err))
			continue
		}
		for k, v := range res.Viol {
			for c := 0; c < res.Counts[k]; c++ { // keep the per-class counts
				r.Report(v)
				if c >= 0 && res.Counts[k] > 1 {
					// count the rest without re-classifying the example each time
					r.bump(v, res.Counts[k]-1)
					break
				}
			}
		}
		for _, s := range res.Samples {
			r.Sample(s)
		}
		r.mu.Lock()
		for _, o := range res.Outcomes {
			r.outcomes[o]++
		}
		r.mu.Unlock()
		for _, e := range res.EngineErr {
			r.EngineError(fmt.Sprintf("shard %d: %s", i, e))
		}
		if first {
			merged = res.Cov
			r.Assume = res.Assume
			first = false
		} else {
			merged.Evaluations += res.Cov.Evaluations
			merged.Transitions += res.Cov.Transitions
			merged.States += res.Cov.States
			merged.Exhaustive = merged.Exhaustive && res.Cov.Exhaustive
			for _, c := range res.Cov.Caps {
				merged.Caps = append(merged.Caps, fmt.Sprintf("shard %d: %s", i, c))
			}
		}
	}
	if len(merged.Caps) > 0 && merged.Caps[0] != "" && !first {
		// caps of shard 0 keep their text
	}
	merged.DistinctNontrivial = int64(r.DistinctOutcomes())
	if merged.Extra == nil {
		merged.Extra = map[string]any{}
	}
	merged.Extra["process_shards"] = n
	r.Finish(merged)
	return true
}

// bump adds n further occurrences of an already reported violation class.
func (r *Run) bump(v Violation, n int) {
	r.mu.Lock()
	defer r.mu.Unlock()
	for i, f := range r.known {
		if f.Clause == v.Clause && has(v.Tags, f.Trigger) {
			r.knownHits[i] += n
			return
		}
	}
	r.violCount += n
	if r.byTag != nil {
		r.byTag[v.Clause+" "+fmt.Sprint(v.Tags)] += n
	}
}
