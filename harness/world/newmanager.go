package world

import (
	"context"

	"github.com/evstack/ev-node/block"
	coreexec "github.com/evstack/ev-node/core/execution"
	coreseq "github.com/evstack/ev-node/core/sequencer"
	"github.com/evstack/ev-node/pkg/signer"
)

func newManager(n *Node, sg any, seq any) (*block.Manager, error) {
	var s signer.Signer
	if sg != nil {
		s = sg.(signer.Signer)
	}
	var ex coreexec.Executor = &ExecClient{Exec: n.Env.Exec, Fate: n.Fate, Gate: n.Gate}
	if n.ExecImpl != nil {
		ex = n.ExecImpl.(coreexec.Executor)
	}
	var m *block.Manager
	var err error
	completed := Go(func() {
		m, err = block.NewManager(
			context.Background(),
			s,
			n.Cfg,
			n.Genesis,
			n.Store,
			ex,
			seq.(coreseq.Sequencer),
			&DAClient{DA: n.Env.DA, Fate: n.Fate, Gate: n.Gate},
			Logger,
			n.HStore,
			n.DStore,
			n.HB,
			n.DB,
			block.NopMetrics(),
			1.0,
			1.0,
			n.P.managerOptions(),
		)
	})
	if !completed {
		return nil, ErrCrashedDuringStart
	}
	return m, err
}
