package world

import (
	"bytes"
	"context"
	"crypto/sha256"
	"encoding/binary"
	"errors"
	"fmt"
	"sync"
	"time"

	goheader "github.com/celestiaorg/go-header"

	coreda "github.com/evstack/ev-node/core/da"
	coreexec "github.com/evstack/ev-node/core/execution"
	coreseq "github.com/evstack/ev-node/core/sequencer"
)

// ---------------------------------------------------------------------------------------------------------------
// DA double: DummyDA-compatible ids (8-byte LE height ‖ sha256), blobs per height in order, a logical tip,
// per-call answers chosen by a policy (the explorer), and a ground-truth call log.

type SubmitAnswer int

const (
	SubmitAcceptAll SubmitAnswer = iota
	SubmitAcceptPrefix1
	SubmitTimedOut
	SubmitInMempool
	SubmitTooBig
	SubmitGenericError
	SubmitStoredButError // accepted and stored, acknowledgement lost
	SubmitCanceled
	NumSubmitAnswers // the menu of ANSWERS (every call returns at once); checks enumerate 0..NumSubmitAnswers-1
)

// SubmitNoAnswer: the request is lost — the DA layer gives NO answer at all, neither success nor error (a black-holed
// connection, a dropped response). Nothing is stored; the call is logged on arrival (Stored 0, Acked 0) and then blocks
// until its context is done and returns the context's error (inside a synctest bubble virtual time makes a caller's
// per-attempt deadline cheap; a caller without one stays parked until its context is cancelled).
// It lies OUTSIDE the 0..NumSubmitAnswers-1 menu on purpose: checks that enumerate that menu are unchanged; a check
// that wants the lost request in its alphabet enumerates 0..NumSubmitAnswersWithLoss-1.
const (
	SubmitNoAnswer           SubmitAnswer = NumSubmitAnswers
	NumSubmitAnswersWithLoss SubmitAnswer = NumSubmitAnswers + 1
)

func (a SubmitAnswer) String() string {
	return [...]string{"accept-all", "accept-prefix-1", "timed-out", "already-in-mempool", "too-big", "generic-error", "stored-but-ack-lost", "canceled", "no-answer"}[a]
}

type GetAnswer int

const (
	GetOK GetAnswer = iota
	GetError
	GetNotFound
	GetFuture
	GetErrorOnGet    // listing ok, fetching blobs fails
	GetNotFoundOnGet // listing ok, fetching blobs answers "blob: not found" (a lagging / pruned replica)
	NumGetAnswers    // the menu of ANSWERS (every call returns at once); checks enumerate 0..NumGetAnswers-1
)

// The fetch side's "no answer" outcomes (the counterpart of SubmitNoAnswer): the request is lost, the DA layer answers
// neither success nor error; the call is logged on arrival, then blocks until its context is done and returns the
// context's error (virtual time in a synctest bubble makes the caller's per-attempt deadline cheap; a caller without a
// deadline stays parked until it is cancelled). They lie OUTSIDE the 0..NumGetAnswers-1 menu on purpose, so checks that
// enumerate that menu are unchanged; a check that wants them enumerates 0..NumGetAnswersWithLoss-1.
const (
	GetNoAnswer           GetAnswer = NumGetAnswers     // the listing call (GetIDs) gets no answer
	GetNoAnswerOnGet      GetAnswer = NumGetAnswers + 1 // listing ok; the blob-chunk fetch (Get) holding the height's LAST id gets no answer (earlier chunks of a >100-id height succeed first)
	NumGetAnswersWithLoss GetAnswer = NumGetAnswers + 2
)

func (a GetAnswer) String() string {
	return [...]string{"ok", "listing-error", "not-found", "from-the-future", "error-on-get", "not-found-on-get", "listing-no-answer", "get-no-answer"}[a]
}

type SubmitCall struct {
	Blobs  [][]byte
	Answer SubmitAnswer
	Stored int    // how many blobs the DA actually stored
	Acked  int    // how many ids were returned to the caller
	Height uint64 // DA height they were stored at
}

type DA struct {
	mu      sync.Mutex
	Tip     uint64 // highest DA height that exists; submissions land at Tip+1 ... see SubmitAt
	heights map[uint64][][]byte
	// SubmitPolicy picks the answer for one Submit call (default accept-all).
	SubmitPolicy func(blobs [][]byte) SubmitAnswer
	// GetPolicy picks the answer for one GetIDs call at a height (default ok).
	GetPolicy func(height uint64) GetAnswer
	// SubmitHeight tells at which DA height accepted blobs land (default Tip+1, and the tip moves with it).
	Submits []SubmitCall
	GetIDsLog []uint64
	MaxBlob   int
}

func NewDA() *DA { return &DA{heights: map[uint64][][]byte{}} }

func MakeID(height uint64, blob []byte) []byte {
	h := sha256.Sum256(blob)
	id := make([]byte, 8+len(h))
	binary.LittleEndian.PutUint64(id, height)
	copy(id[8:], h[:])
	return id
}

// Place puts a blob at a DA height directly (harness side).
func (d *DA) Place(height uint64, blob []byte) {
	d.mu.Lock()
	defer d.mu.Unlock()
	d.heights[height] = append(d.heights[height], append([]byte(nil), blob...))
	if height > d.Tip {
		d.Tip = height
	}
}

func (d *DA) SetTip(h uint64) { d.mu.Lock(); d.Tip = h; d.mu.Unlock() }

// BlobsAt returns the ground truth at a height.
func (d *DA) BlobsAt(height uint64) [][]byte {
	d.mu.Lock()
	defer d.mu.Unlock()
	return append([][]byte(nil), d.heights[height]...)
}

// AllBlobs returns (height, blob) pairs in DA order.
type Placed struct {
	Height uint64
	Blob   []byte
}

func (d *DA) AllBlobs() []Placed {
	d.mu.Lock()
	defer d.mu.Unlock()
	var out []Placed
	for h := uint64(0); h <= d.Tip; h++ {
		for _, b := range d.heights[h] {
			out = append(out, Placed{h, b})
		}
	}
	return out
}

func (d *DA) SubmitLog() []SubmitCall {
	d.mu.Lock()
	defer d.mu.Unlock()
	return append([]SubmitCall(nil), d.Submits...)
}

// Client is the per-process handle of the shared DA (calls from a crashed process end the goroutine).
type DAClient struct {
	*DA
	Fate *Fate
	Gate func(op string)
}

var _ coreda.DA = (*DAClient)(nil)

func (c *DAClient) enter(op string) {
	c.Fate.Check()
	if c.Gate != nil {
		c.Gate(op)
		c.Fate.Check()
	}
}

func (c *DAClient) GasPrice(ctx context.Context) (float64, error)      { return 1, nil }
func (c *DAClient) GasMultiplier(ctx context.Context) (float64, error) { return 1, nil }

func (c *DAClient) Submit(ctx context.Context, blobs []coreda.Blob, gasPrice float64, ns []byte) ([]coreda.ID, error) {
	return c.SubmitWithOptions(ctx, blobs, gasPrice, ns, nil)
}

func (c *DAClient) SubmitWithOptions(ctx context.Context, blobs []coreda.Blob, gasPrice float64, ns []byte, opts []byte) ([]coreda.ID, error) {
	c.enter("da.submit")
	d := c.DA
	ans := SubmitAcceptAll
	if d.SubmitPolicy != nil {
		ans = d.SubmitPolicy(blobs)
	}
	c.Fate.Check()
	if ans == SubmitNoAnswer {
		call := SubmitCall{Answer: ans}
		for _, b := range blobs {
			call.Blobs = append(call.Blobs, append([]byte(nil), b...))
		}
		d.mu.Lock()
		d.Submits = append(d.Submits, call)
		d.mu.Unlock()
		<-ctx.Done() // the only way out: the caller's deadline or cancellation
		c.Fate.Check()
		return nil, ctx.Err()
	}
	d.mu.Lock()
	defer d.mu.Unlock()
	call := SubmitCall{Answer: ans}
	for _, b := range blobs {
		call.Blobs = append(call.Blobs, append([]byte(nil), b...))
	}
	store := func(n int) []coreda.ID {
		h := d.Tip + 1
		d.Tip = h
		var ids []coreda.ID
		for _, b := range blobs[:n] {
			d.heights[h] = append(d.heights[h], append([]byte(nil), b...))
			ids = append(ids, MakeID(h, b))
		}
		call.Stored, call.Height = n, h
		return ids
	}
	var ids []coreda.ID
	var err error
	switch ans {
	case SubmitAcceptAll:
		ids = store(len(blobs))
	case SubmitAcceptPrefix1:
		n := 1
		if len(blobs) < 1 {
			n = len(blobs)
		}
		ids = store(n)
	case SubmitTimedOut:
		err = fmt.Errorf("da: %w", coreda.ErrTxTimedOut)
	case SubmitInMempool:
		err = coreda.ErrTxAlreadyInMempool
	case SubmitTooBig:
		err = coreda.ErrBlobSizeOverLimit
	case SubmitGenericError:
		err = errors.New("da: connection reset")
	case SubmitStoredButError:
		store(len(blobs))
		err = errors.New("da: acknowledgement lost")
	case SubmitCanceled:
		err = context.Canceled
	}
	call.Acked = len(ids)
	d.Submits = append(d.Submits, call)
	return ids, err
}

func (c *DAClient) GetIDs(ctx context.Context, height uint64, ns []byte) (*coreda.GetIDsResult, error) {
	c.enter(fmt.Sprintf("da.getids %d", height))
	d := c.DA
	ans := GetOK
	if d.GetPolicy != nil {
		ans = d.GetPolicy(height)
	}
	if ans == GetNoAnswer {
		d.mu.Lock()
		d.GetIDsLog = append(d.GetIDsLog, height)
		d.mu.Unlock()
		<-ctx.Done() // the only way out: the caller's deadline or cancellation
		c.Fate.Check()
		return nil, ctx.Err()
	}
	d.mu.Lock()
	defer d.mu.Unlock()
	d.GetIDsLog = append(d.GetIDsLog, height)
	switch ans {
	case GetError:
		return nil, errors.New("da: listing failed")
	case GetNotFound:
		return nil, coreda.ErrBlobNotFound
	case GetFuture:
		return nil, fmt.Errorf("%w: requested %d", coreda.ErrHeightFromFuture, height)
	}
	if height > d.Tip {
		return nil, fmt.Errorf("%w: requested %d, current %d", coreda.ErrHeightFromFuture, height, d.Tip)
	}
	var ids []coreda.ID
	for _, b := range d.heights[height] {
		ids = append(ids, MakeID(height, b))
	}
	if ans == GetErrorOnGet {
		for i := range ids {
			ids[i] = append(ids[i], 0xEE) // unknown id: Get fails
		}
	}
	if ans == GetNotFoundOnGet {
		for i := range ids {
			ids[i] = append(ids[i], 0xEF) // Get answers ErrBlobNotFound
		}
	}
	if ans == GetNoAnswerOnGet && len(ids) > 0 {
		ids[len(ids)-1] = append(ids[len(ids)-1], 0xED) // the Get call holding this id gets no answer
	}
	return &coreda.GetIDsResult{IDs: ids, Timestamp: time.Unix(int64(1_700_000_000+height), 0).UTC()}, nil
}

func (c *DAClient) Get(ctx context.Context, ids []coreda.ID, ns []byte) ([]coreda.Blob, error) {
	c.enter("da.get")
	d := c.DA
	for _, id := range ids {
		if len(id) == 41 && id[40] == 0xED { // GetNoAnswerOnGet: this request is lost
			<-ctx.Done()
			c.Fate.Check()
			return nil, ctx.Err()
		}
	}
	d.mu.Lock()
	defer d.mu.Unlock()
	var out []coreda.Blob
	for _, id := range ids {
		if len(id) == 41 && id[40] == 0xEF {
			return nil, coreda.ErrBlobNotFound
		}
		if len(id) != 40 {
			return nil, errors.New("da: fetching blobs failed")
		}
		h := binary.LittleEndian.Uint64(id[:8])
		found := false
		for _, b := range d.heights[h] {
			if bytes.Equal(MakeID(h, b), id) {
				out = append(out, append([]byte(nil), b...))
				found = true
				break
			}
		}
		if !found {
			return nil, coreda.ErrBlobNotFound
		}
	}
	return out, nil
}

func (c *DAClient) GetProofs(ctx context.Context, ids []coreda.ID, ns []byte) ([]coreda.Proof, error) {
	c.enter("da.getproofs")
	out := make([]coreda.Proof, len(ids))
	for i, id := range ids {
		out[i] = id
	}
	return out, nil
}

func (c *DAClient) Commit(ctx context.Context, blobs []coreda.Blob, ns []byte) ([]coreda.Commitment, error) {
	c.enter("da.commit")
	out := make([]coreda.Commitment, len(blobs))
	for i, b := range blobs {
		h := sha256.Sum256(b)
		out[i] = h[:]
	}
	return out, nil
}

func (c *DAClient) Validate(ctx context.Context, ids []coreda.ID, proofs []coreda.Proof, ns []byte) ([]bool, error) {
	c.enter("da.validate")
	out := make([]bool, len(ids))
	for i := range ids {
		out[i] = true
	}
	return out, nil
}

// ---------------------------------------------------------------------------------------------------------------
// Executor double: contract-conforming reference. The state root is a pure hash chain root' = H(prev ‖ txs), so it
// needs no persistence; the mempool is external state; GetTxs does not drain, ExecuteTxs removes executed txs.

type ExecCall struct {
	Kind   string // "init" | "exec" | "final" | "gettxs"
	Height uint64
	Txs    [][]byte
	Prev   []byte
	Root   []byte
	Err    bool
}

type Exec struct {
	mu      sync.Mutex
	Mempool [][]byte
	Calls   []ExecCall
	// ExecPolicy / FinalPolicy return true to fail the call.
	ExecPolicy  func(height uint64) bool
	FinalPolicy func(height uint64) bool
	// HonourCancel: a call made with an already cancelled context fails with the context's error (what a remote
	// execution client does); off by default.
	HonourCancel bool
	// Hang, if set and true at the entry of ExecuteTxs/SetFinal, makes a call whose context is still live wait until
	// that context ends (a remote execution client that has stopped answering); the call then fails with the
	// context's error. Only meaningful together with HonourCancel. A killed process frees the caller.
	Hang func() bool
}

// hang implements Exec.Hang for one call; it returns the error to fail with (nil = do not hang).
func (c *ExecClient) hang(ctx context.Context) error {
	e := c.Exec
	if e.Hang == nil || !e.Hang() || ctx.Err() != nil {
		return nil
	}
	for ctx.Err() == nil {
		c.Fate.Check()
		time.Sleep(50 * time.Millisecond)
	}
	return ctx.Err()
}

func NewExec() *Exec { return &Exec{} }

func GenesisRoot(chainID string) []byte {
	h := sha256.Sum256([]byte("genesis-root:" + chainID))
	return h[:]
}

func NextRoot(prev []byte, txs [][]byte) []byte {
	h := sha256.New()
	h.Write(prev)
	for _, tx := range txs {
		var l [4]byte
		binary.LittleEndian.PutUint32(l[:], uint32(len(tx)))
		h.Write(l[:])
		h.Write(tx)
	}
	return h.Sum(nil)
}

func (e *Exec) Inject(tx []byte) {
	e.mu.Lock()
	e.Mempool = append(e.Mempool, append([]byte(nil), tx...))
	e.mu.Unlock()
}

func (e *Exec) Log() []ExecCall {
	e.mu.Lock()
	defer e.mu.Unlock()
	return append([]ExecCall(nil), e.Calls...)
}

type ExecClient struct {
	*Exec
	Fate *Fate
	Gate func(op string)
}

var _ coreexec.Executor = (*ExecClient)(nil)

func (c *ExecClient) enter(op string) {
	c.Fate.Check()
	if c.Gate != nil {
		c.Gate(op)
		c.Fate.Check()
	}
}

func (c *ExecClient) InitChain(ctx context.Context, genesisTime time.Time, initialHeight uint64, chainID string) ([]byte, uint64, error) {
	c.enter("exec.init")
	e := c.Exec
	e.mu.Lock()
	defer e.mu.Unlock()
	r := GenesisRoot(chainID)
	e.Calls = append(e.Calls, ExecCall{Kind: "init", Height: initialHeight, Root: r})
	return r, 1 << 20, nil
}

func (c *ExecClient) GetTxs(ctx context.Context) ([][]byte, error) {
	c.enter("exec.gettxs")
	e := c.Exec
	e.mu.Lock()
	defer e.mu.Unlock()
	out := make([][]byte, len(e.Mempool))
	for i, tx := range e.Mempool {
		out[i] = append([]byte(nil), tx...)
	}
	e.Calls = append(e.Calls, ExecCall{Kind: "gettxs", Txs: out})
	return out, nil
}

func (c *ExecClient) ExecuteTxs(ctx context.Context, txs [][]byte, height uint64, ts time.Time, prev []byte) ([]byte, uint64, error) {
	c.enter(fmt.Sprintf("exec.exec %d", height))
	e := c.Exec
	if err := c.hang(ctx); err != nil {
		return nil, 0, err
	}
	if e.HonourCancel && ctx.Err() != nil {
		e.mu.Lock()
		e.Calls = append(e.Calls, ExecCall{Kind: "exec", Height: height, Err: true})
		e.mu.Unlock()
		return nil, 0, ctx.Err()
	}
	fail := e.ExecPolicy != nil && e.ExecPolicy(height)
	e.mu.Lock()
	defer e.mu.Unlock()
	call := ExecCall{Kind: "exec", Height: height, Prev: append([]byte(nil), prev...)}
	for _, tx := range txs {
		call.Txs = append(call.Txs, append([]byte(nil), tx...))
	}
	if fail {
		call.Err = true
		e.Calls = append(e.Calls, call)
		return nil, 0, errors.New("exec: transient execution failure")
	}
	call.Root = NextRoot(prev, txs)
	e.Calls = append(e.Calls, call)
	// executed transactions leave the mempool
	var rest [][]byte
	for _, m := range e.Mempool {
		drop := false
		for _, tx := range txs {
			if bytes.Equal(m, tx) {
				drop = true
				break
			}
		}
		if !drop {
			rest = append(rest, m)
		}
	}
	e.Mempool = rest
	return call.Root, 1 << 20, nil
}

func (c *ExecClient) SetFinal(ctx context.Context, height uint64) error {
	c.enter(fmt.Sprintf("exec.final %d", height))
	e := c.Exec
	if err := c.hang(ctx); err != nil {
		return err
	}
	if e.HonourCancel && ctx.Err() != nil {
		e.mu.Lock()
		e.Calls = append(e.Calls, ExecCall{Kind: "final", Height: height, Err: true})
		e.mu.Unlock()
		return ctx.Err()
	}
	fail := e.FinalPolicy != nil && e.FinalPolicy(height)
	e.mu.Lock()
	defer e.mu.Unlock()
	e.Calls = append(e.Calls, ExecCall{Kind: "final", Height: height, Err: fail})
	if fail {
		return errors.New("exec: finalize failed")
	}
	return nil
}

// ---------------------------------------------------------------------------------------------------------------
// Sequencer double: answers chosen by a policy, everything handed out is logged.

type SeqAnswer struct {
	Kind string   // "batch" (possibly empty txs) | "absent" (nil response) | "nilbatch" | "error"
	Txs  [][]byte // for "batch"
	Time time.Time
}

type Seq struct {
	mu sync.Mutex
	// Next decides the answer to one GetNextBatch call.
	Next      func(req coreseq.GetNextBatchRequest) SeqAnswer
	HandedOut []SeqAnswer // every "batch" answer, in order
	Submitted [][][]byte
	Reqs      []coreseq.GetNextBatchRequest
}

type SeqClient struct {
	*Seq
	Fate *Fate
	Gate func(op string)
}

var _ coreseq.Sequencer = (*SeqClient)(nil)

func (c *SeqClient) enter(op string) {
	c.Fate.Check()
	if c.Gate != nil {
		c.Gate(op)
		c.Fate.Check()
	}
}

func (c *SeqClient) SubmitBatchTxs(ctx context.Context, req coreseq.SubmitBatchTxsRequest) (*coreseq.SubmitBatchTxsResponse, error) {
	c.enter("seq.submit")
	c.Seq.mu.Lock()
	defer c.Seq.mu.Unlock()
	if req.Batch != nil {
		c.Seq.Submitted = append(c.Seq.Submitted, req.Batch.Transactions)
	}
	return &coreseq.SubmitBatchTxsResponse{}, nil
}

func (c *SeqClient) GetNextBatch(ctx context.Context, req coreseq.GetNextBatchRequest) (*coreseq.GetNextBatchResponse, error) {
	c.enter("seq.next")
	s := c.Seq
	a := s.Next(req)
	c.Fate.Check()
	s.mu.Lock()
	defer s.mu.Unlock()
	s.Reqs = append(s.Reqs, req)
	switch a.Kind {
	case "error":
		return nil, errors.New("seq: transient sequencer error")
	case "absent":
		return nil, nil
	case "nilbatch":
		return &coreseq.GetNextBatchResponse{Batch: nil, Timestamp: a.Time}, nil
	}
	s.HandedOut = append(s.HandedOut, a)
	txs := make([][]byte, len(a.Txs))
	for i, tx := range a.Txs {
		txs[i] = append([]byte(nil), tx...)
	}
	return &coreseq.GetNextBatchResponse{Batch: &coreseq.Batch{Transactions: txs}, Timestamp: a.Time, BatchData: [][]byte{[]byte(fmt.Sprintf("bd-%d", len(s.HandedOut)))}}, nil
}

func (c *SeqClient) VerifyBatch(ctx context.Context, req coreseq.VerifyBatchRequest) (*coreseq.VerifyBatchResponse, error) {
	c.enter("seq.verify")
	return &coreseq.VerifyBatchResponse{Status: true}, nil
}

// ---------------------------------------------------------------------------------------------------------------
// Broadcaster double and P2P store double.

type Broadcaster[T any] struct {
	mu   sync.Mutex
	Sent []T
	Fate *Fate
	// Store, when set, receives every payload (models WriteToStoreAndBroadcast feeding the local P2P store).
	OnSend func(T)
}

func (b *Broadcaster[T]) WriteToStoreAndBroadcast(ctx context.Context, payload T) error {
	if b.Fate.Crashed() {
		return errors.New("process is gone")
	}
	b.mu.Lock()
	b.Sent = append(b.Sent, payload)
	f := b.OnSend
	b.mu.Unlock()
	if f != nil {
		f(payload)
	}
	return nil
}

func (b *Broadcaster[T]) Payloads() []T {
	b.mu.Lock()
	defer b.mu.Unlock()
	return append([]T(nil), b.Sent...)
}

// P2PStore is a contiguous append-only goheader.Store double; only Height and GetByHeight are used by the manager.
type P2PStore[H goheader.Header[H]] struct {
	goheader.Store[H] // nil: any other method panics loudly
	mu                sync.Mutex
	items             []H
	Gate              func(op string)
}

func (s *P2PStore[H]) Append1(h H) {
	s.mu.Lock()
	s.items = append(s.items, h)
	s.mu.Unlock()
}

func (s *P2PStore[H]) Height() uint64 {
	if s.Gate != nil {
		s.Gate("p2p.height")
	}
	s.mu.Lock()
	defer s.mu.Unlock()
	if len(s.items) == 0 {
		return 0
	}
	return s.items[len(s.items)-1].Height()
}

func (s *P2PStore[H]) GetByHeight(ctx context.Context, height uint64) (H, error) {
	if s.Gate != nil {
		s.Gate("p2p.get")
	}
	s.mu.Lock()
	defer s.mu.Unlock()
	for _, it := range s.items {
		if it.Height() == height {
			return it, nil
		}
	}
	var zero H
	return zero, goheader.ErrNotFound
}
