package world

import (
	"context"
	"fmt"
	"strings"
	"sync"
	"testing/synctest"
	"time"

	"github.com/evstack/ev-node/block"

	"github.com/evstack/ev-node/types"
)

// FullL2 is a full (non-aggregator) node with all of its ingress loops running unmodified inside a synctest bubble:
// RetrieveLoop (DA), HeaderStoreRetrieveLoop and DataStoreRetrieveLoop (P2P), SyncLoop, DAIncluderLoop.
// Its tickers are configured far beyond any horizon; the harness sends the tick signals itself.
type FullL2 struct {
	N      *Node
	Env    *Env
	P      Params
	ErrCh  chan error
	cancel context.CancelFunc
	Fatal  []string
	HStore *P2PStore[*types.SignedHeader]
	DStore *P2PStore[*types.Data]
	Sched  *Sched
}

// StartFullL2 must be called inside a bubble.
func StartFullL2(p Params, env *Env, image map[string][]byte, hs *P2PStore[*types.SignedHeader], ds *P2PStore[*types.Data], onWrite func(int, Write) bool) (*FullL2, error) {
	return StartFullL2Sched(p, env, image, hs, ds, onWrite, NewSched(nil))
}

// StartFullL2Sched runs the loops as threads of a cooperative scheduler: exactly one of them runs at a time and the
// order is decided by sched.Choose (nil = canonical order, i.e. one deterministic interleaving).
func StartFullL2Sched(p Params, env *Env, image map[string][]byte, hs *P2PStore[*types.SignedHeader], ds *P2PStore[*types.Data], onWrite func(int, Write) bool, sched *Sched) (*FullL2, error) {
	p.BlockTime, p.DABlockTime = 1000*time.Hour, 1000*time.Hour
	if hs == nil {
		hs = &P2PStore[*types.SignedHeader]{}
	}
	if ds == nil {
		ds = &P2PStore[*types.Data]{}
	}
	hs.Gate, ds.Gate = sched.Gate, sched.Gate
	n, err := StartNode(p, env, image, NodeOpts{HStore: hs, DStore: ds, OnWrite: onWrite, Gate: sched.Gate})
	if err != nil {
		return nil, err
	}
	InstallDivert(sched, n, "sync")
	f := &FullL2{N: n, Env: env, P: p, ErrCh: make(chan error, 16), HStore: hs, DStore: ds, Sched: sched}
	var ctx context.Context
	ctx, f.cancel = context.WithCancel(context.Background())
	sched.Go("retrieve", func() { n.M.RetrieveLoop(ctx) })
	sched.Go("p2p-headers", func() { n.M.HeaderStoreRetrieveLoop(ctx) })
	sched.Go("p2p-data", func() { n.M.DataStoreRetrieveLoop(ctx) })
	sched.Go("sync", func() { n.M.SyncLoop(ctx, f.ErrCh) })
	sched.Go("includer", func() { n.M.DAIncluderLoop(ctx, f.ErrCh) })
	sched.Drain()
	return f, nil
}

func signal(ch chan struct{}) {
	select {
	case ch <- struct{}{}:
	default:
	}
}

// Settle lets in-call retries (100 ms pauses) finish and waits for quiescence.
func (f *FullL2) Settle() {
	f.Sched.Drain()
	// in-call retries pause for 100 ms: let virtual time pass until nothing is left to do
	for i := 0; i < 12; i++ {
		time.Sleep(300 * time.Millisecond)
		if f.Sched.Drain() == 0 && i >= 1 {
			break
		}
	}
	for {
		select {
		case err := <-f.ErrCh:
			f.Fatal = append(f.Fatal, err.Error())
			continue
		default:
		}
		break
	}
}

// TickDA is what SyncLoop's DA ticker does; TickP2P what its block ticker does.
func (f *FullL2) TickDA()  { signal(f.N.M.VerifRetrieveCh()); f.Settle() }
func (f *FullL2) TickP2P() {
	signal(f.N.M.VerifHeaderStoreCh())
	signal(f.N.M.VerifDataStoreCh())
	f.Settle()
}
func (f *FullL2) TickIncluder() { signal(f.N.M.VerifDAIncluderCh()); f.Settle() }

func (f *FullL2) Stop() {
	// Go chooses at random between ctx.Done() and another ready case; a loop that wins one more iteration after the
	// cancel is frozen at its next environment call so that it consumes no decision point.
	f.cancel()
	f.N.Fate.Kill()
	f.Sched.Off()
	synctest.Wait()
	f.N.M.VerifClearDivert()
}

// Digest renders everything the C03 differential oracle compares.
func (f *FullL2) Digest(initial uint64) string {
	var sb strings.Builder
	st := f.N.OracleStore()
	h, blocks, fail := ReadChain(st, initial)
	fmt.Fprintf(&sb, "height=%d;", h)
	if fail != nil {
		fmt.Fprintf(&sb, "unreadable:%s;", fail.Msg)
	}
	for i, b := range blocks {
		fmt.Fprintf(&sb, "b%d=%X/%q;", initial+uint64(i), []byte(b.H.Hash()), txsOf(b.D))
	}
	if s, err := st.GetState(context.Background()); err == nil {
		fmt.Fprintf(&sb, "state=%d/%X;", s.LastBlockHeight, s.AppHash)
	}
	fmt.Fprintf(&sb, "dainc=%d;", f.N.M.GetDAIncludedHeight())
	for _, c := range f.Env.Exec.Log() {
		switch c.Kind {
		case "exec":
			fmt.Fprintf(&sb, "exec(%d,%q);", c.Height, c.Txs)
		case "final":
			fmt.Fprintf(&sb, "final(%d);", c.Height)
		}
	}
	fmt.Fprintf(&sb, "fatal=%d", len(f.Fatal))
	return sb.String()
}

// EventQueues model the two buffered input channels of the sync loop on the harness side: producers' sends are
// diverted into these FIFOs (so producers run ahead exactly as with a buffered channel) and two virtual scheduler
// actions deliver the head of either queue into the real channel while the sync loop is idle — the explorer thereby
// owns the choice Go's select would make at random when both channels hold events. A process stop drops the queues.
type EventQueues struct {
	mu       sync.Mutex
	H        []block.NewHeaderEvent
	D        []block.NewDataEvent
	Diverted int
}

func InstallDivert(sched *Sched, n *Node, syncThread string) *EventQueues {
	q := &EventQueues{}
	m := n.M
	m.VerifSetDivert(func(h *block.NewHeaderEvent, d *block.NewDataEvent) bool {
		if n.Fate.Crashed() {
			return true // the process is gone: the event is lost
		}
		q.mu.Lock()
		defer q.mu.Unlock()
		q.Diverted++
		if h != nil {
			q.H = append(q.H, *h)
		} else {
			q.D = append(q.D, *d)
		}
		return true
	})
	idle := func() bool { return !sched.IsParked(syncThread) && !n.Fate.Crashed() }
	sched.Virtuals = append(sched.Virtuals,
		&Virtual{Name: "deliver:header->" + syncThread, Enabled: func() bool {
			q.mu.Lock()
			defer q.mu.Unlock()
			return len(q.H) > 0 && idle()
		}, Run: func() {
			q.mu.Lock()
			ev := q.H[0]
			q.H = q.H[1:]
			q.mu.Unlock()
			m.VerifHeaderInCh() <- ev
		}},
		&Virtual{Name: "deliver:data->" + syncThread, Enabled: func() bool {
			q.mu.Lock()
			defer q.mu.Unlock()
			return len(q.D) > 0 && idle()
		}, Run: func() {
			q.mu.Lock()
			ev := q.D[0]
			q.D = q.D[1:]
			q.mu.Unlock()
			m.VerifDataInCh() <- ev
		}})
	return q
}
