package world

import (
	"crypto/sha256"

	"github.com/evstack/ev-node/block"
	"github.com/evstack/ev-node/types"
)

// Configuration dimension "custom signature payload provider" (Params.CustomPayload).
//
// block.ManagerOptions.SignaturePayloadProvider lets an integration decide WHAT the proposer signs for a header
// (default: the header's binary encoding). The provider is node configuration: it is not part of any encoding of a
// SignedHeader, so every place where a header enters the node from bytes (DA blob, P2P store, block store, cache
// file) hands out a value that still has to be told about it (SignedHeader.SetCustomVerifier). A world with
// Params.CustomPayload = true builds all of its managers — the producing aggregator and the full nodes — with
// CustomPayloadProvider; all other worlds keep block.DefaultManagerOptions().

// CustomPayloadProvider is a deterministic non-default provider: the signed payload is
// sha256("verif-custom-payload/" || header bytes). A signature made under it never verifies under the default
// payload and vice versa.
func CustomPayloadProvider(h *types.Header) ([]byte, error) {
	bz, err := h.MarshalBinary()
	if err != nil {
		return nil, err
	}
	sum := sha256.Sum256(append([]byte("verif-custom-payload/"), bz...))
	return sum[:], nil
}

// PayloadProvider is the provider a node of this world is configured with.
func (p Params) PayloadProvider() types.SignaturePayloadProvider {
	if p.CustomPayload {
		return CustomPayloadProvider
	}
	return types.DefaultSignaturePayloadProvider
}

func (p Params) managerOptions() block.ManagerOptions {
	o := block.DefaultManagerOptions()
	if p.CustomPayload {
		o.SignaturePayloadProvider = CustomPayloadProvider
	}
	return o
}

// BuildChainCustom is BuildChain for a world whose nodes are configured with CustomPayloadProvider: the producing
// aggregator signs every header (the genesis block included) under it.
func BuildChainCustom(pattern string, initial uint64) (*ProducerChain, error) {
	return buildChain(pattern, initial, true)
}

// BuildChainFor picks by configuration.
func BuildChainFor(pattern string, initial uint64, customPayload bool) (*ProducerChain, error) {
	return buildChain(pattern, initial, customPayload)
}
