package world

import (
	"bytes"
	"context"
	"fmt"

	"github.com/evstack/ev-node/pkg/store"
	"github.com/evstack/ev-node/types"
)

// Fail is one oracle failure.
type Fail struct {
	Clause string
	Msg    string
}

func failf(clause, f string, a ...any) *Fail { return &Fail{clause, fmt.Sprintf(f, a...)} }

// Block is one committed block as read back from a store.
type Block struct {
	H   *types.SignedHeader
	D   *types.Data
	Sig types.Signature
}

// ReadChain reads blocks initial..height from an (ungated) store view.
func ReadChain(st store.Store, initial uint64) (uint64, []Block, *Fail) {
	ctx := context.Background()
	height, err := st.Height(ctx)
	if err != nil {
		return 0, nil, failf("store-readable", "Height(): %v", err)
	}
	var out []Block
	for h := initial; h <= height; h++ {
		hd, d, err := st.GetBlockData(ctx, h)
		if err != nil {
			return height, out, failf("block-retrievable", "chain height is %d but GetBlockData(%d) fails: %v", height, h, err)
		}
		sg, err := st.GetSignature(ctx, h)
		if err != nil {
			return height, out, failf("block-retrievable", "chain height is %d but GetSignature(%d) fails: %v", height, h, err)
		}
		out = append(out, Block{hd, d, *sg})
	}
	return height, out, nil
}

func txsOf(d *types.Data) [][]byte {
	out := make([][]byte, len(d.Txs))
	for i, tx := range d.Txs {
		out[i] = tx
	}
	return out
}

func TxsEqual(a, b [][]byte) bool {
	if len(a) != len(b) {
		return false
	}
	for i := range a {
		if !bytes.Equal(a[i], b[i]) {
			return false
		}
	}
	return true
}

// ChainSpec is what the oracle needs to know about the world.
type ChainSpec struct {
	ChainID  string
	Initial  uint64
	Proposer *FixedSigner
	// Batches are the non-empty batches the sequencing layer handed out, in order (nil = do not check the mapping).
	Batches [][][]byte
	CheckBatches bool
	// Payload is the signature payload provider the chain's nodes are configured with (nil = the default one).
	Payload types.SignaturePayloadProvider
	// Roots, if set, is the reference execution the app-hash / state-agrees clauses compare with (a world whose
	// execution layer is not the Exec double, see RootModel); nil = the hash chain of the Exec double.
	Roots *RootModel
}

// RootModel is a reference execution of a chain from genesis: Genesis returns the root before the first block, Next
// the root after executing one more block on top of everything executed so far (blocks are fed in height order, once).
type RootModel struct {
	Genesis func() ([]byte, error)
	Next    func(b Block) ([]byte, error)
}

// CheckChain verifies the C01 clauses on a committed chain (recomputed from the store only).
// It returns the reference roots: roots[i] = state root after block initial+i (roots[-1] = genesis root).
func CheckChain(st store.Store, spec ChainSpec) (height uint64, blocks []Block, fail *Fail) {
	height, blocks, fail = ReadChain(st, spec.Initial)
	if fail != nil {
		return
	}
	root := GenesisRoot(spec.ChainID)
	if spec.Roots != nil {
		var err error
		if root, err = spec.Roots.Genesis(); err != nil {
			return height, blocks, failf("app-hash", "reference execution: genesis fails: %v", err)
		}
	}
	bi := 0
	for i, b := range blocks {
		h := spec.Initial + uint64(i)
		if b.H.Height() != h {
			return height, blocks, failf("one-height", "block stored at %d has header height %d", h, b.H.Height())
		}
		if b.H.ChainID() != spec.ChainID {
			return height, blocks, failf("chain-id", "block %d has chain id %q", h, b.H.ChainID())
		}
		if i > 0 {
			prev := blocks[i-1]
			if !bytes.Equal(b.H.LastHeaderHash, prev.H.Hash()) {
				return height, blocks, failf("hash-link", "block %d names %X as previous header hash, previous header hashes to %X", h, []byte(b.H.LastHeaderHash), []byte(prev.H.Hash()))
			}
			if b.H.Time().Before(prev.H.Time()) {
				return height, blocks, failf("time-monotone", "block %d is timestamped %v, earlier than its predecessor %v", h, b.H.Time().UnixNano(), prev.H.Time().UnixNano())
			}
		}
		if err := types.Validate(b.H, b.D); err != nil {
			return height, blocks, failf("data-commitment", "block %d: header does not commit to the stored data: %v", h, err)
		}
		if !bytes.Equal(b.H.DataHash, (&types.Data{Txs: b.D.Txs}).DACommitment()) {
			return height, blocks, failf("data-commitment", "block %d: DataHash is not the commitment of the stored transactions", h)
		}
		if !bytes.Equal(b.H.AppHash, root) {
			return height, blocks, failf("app-hash", "block %d carries app hash %X, the state root obtained by executing all earlier blocks is %X", h, []byte(b.H.AppHash), root)
		}
		// signed by the genesis proposer
		if b.H.Signer.PubKey == nil || !b.H.Signer.PubKey.Equals(spec.Proposer.Pub()) {
			return height, blocks, failf("signed-by-proposer", "block %d is not signed with the genesis proposer's key", h)
		}
		if !bytes.Equal(b.H.ProposerAddress, spec.Proposer.Addr()) || !bytes.Equal(b.H.Signer.Address, spec.Proposer.Addr()) {
			return height, blocks, failf("signed-by-proposer", "block %d names a proposer address other than the genesis proposer", h)
		}
		provider := spec.Payload
		if provider == nil {
			provider = types.DefaultSignaturePayloadProvider
		}
		payload, err := provider(&b.H.Header)
		if err != nil {
			return height, blocks, failf("signed-by-proposer", "block %d: %v", h, err)
		}
		if ok, err := spec.Proposer.Pub().Verify(payload, b.H.Signature); err != nil || !ok {
			return height, blocks, failf("signed-by-proposer", "block %d: header signature does not verify under the genesis proposer's key", h)
		}
		if !bytes.Equal(b.Sig, b.H.Signature) {
			return height, blocks, failf("stored-signature", "block %d: stored signature record differs from the header's signature", h)
		}
		if spec.Payload != nil {
			b.H.SetCustomVerifier(spec.Payload)
		}
		if err := b.H.ValidateBasic(); err != nil {
			return height, blocks, failf("full-node-validation", "block %d fails basic validation: %v", h, err)
		}
		// the batch it was built from
		if spec.CheckBatches && len(b.D.Txs) > 0 {
			txs := txsOf(b.D)
			found := false
			for bi < len(spec.Batches) {
				if TxsEqual(spec.Batches[bi], txs) {
					found = true
					bi++
					break
				}
				bi++
			}
			if !found {
				return height, blocks, failf("batch-contents", "block %d contains transactions %q that are not a batch (in order) the sequencing layer handed out after the batches of earlier blocks", h, txs)
			}
		}
		if spec.Roots != nil {
			var err error
			if root, err = spec.Roots.Next(b); err != nil {
				return height, blocks, failf("app-hash", "reference execution of the committed chain from genesis fails at block %d: %v", h, err)
			}
		} else {
			root = NextRoot(root, txsOf(b.D))
		}
	}
	// recorded state agrees
	s, err := st.GetState(context.Background())
	if err != nil {
		if len(blocks) > 0 {
			return height, blocks, failf("state-agrees", "chain has %d blocks but GetState fails: %v", len(blocks), err)
		}
		return
	}
	if len(blocks) > 0 || s.LastBlockHeight >= spec.Initial {
		if s.LastBlockHeight != height {
			return height, blocks, failf("state-agrees", "recorded state is at height %d, chain height is %d", s.LastBlockHeight, height)
		}
		if !bytes.Equal(s.AppHash, root) {
			return height, blocks, failf("state-agrees", "recorded state root %X differs from the root of the committed chain %X", s.AppHash, root)
		}
	}
	return
}

// RootsOf returns the reference roots after each block.
func RootsOf(chainID string, blocks []Block) [][]byte {
	root := GenesisRoot(chainID)
	out := make([][]byte, len(blocks))
	for i, b := range blocks {
		root = NextRoot(root, txsOf(b.D))
		out[i] = root
	}
	return out
}
