package world

import (
	"context"
	"fmt"
	"time"

	"google.golang.org/protobuf/proto"

	coreexec "github.com/evstack/ev-node/core/execution"
	coreseq "github.com/evstack/ev-node/core/sequencer"
	"github.com/evstack/ev-node/types"
)

// RealExec puts a real coreexecutor.Executor (e.g. apps/testapp/kv.KVExecutor) behind one node process:
//   - a dead process makes no further calls (Fate check at the entry of every method, like every double),
//   - optional scheduling gate,
//   - every call is logged into the Exec double of the Env (Log), so that oracles that read the execution call log
//     (CheckFollows' execution-order clause) stay armed.
//
// Nothing of the executor's behaviour is modelled here: results and errors are the inner executor's.
type RealExec struct {
	Inner coreexec.Executor
	Log   *Exec // may be nil
	Fate  *Fate
	Gate  func(op string)
}

var _ coreexec.Executor = (*RealExec)(nil)

func (c *RealExec) enter(op string) {
	c.Fate.Check()
	if c.Gate != nil {
		c.Gate(op)
		c.Fate.Check()
	}
}

func (c *RealExec) log(call ExecCall) {
	if c.Log == nil {
		return
	}
	c.Log.mu.Lock()
	c.Log.Calls = append(c.Log.Calls, call)
	c.Log.mu.Unlock()
}

func (c *RealExec) InitChain(ctx context.Context, genesisTime time.Time, initialHeight uint64, chainID string) ([]byte, uint64, error) {
	c.enter("exec.init")
	r, g, err := c.Inner.InitChain(ctx, genesisTime, initialHeight, chainID)
	c.Fate.Check()
	c.log(ExecCall{Kind: "init", Height: initialHeight, Root: append([]byte(nil), r...), Err: err != nil})
	return r, g, err
}

func (c *RealExec) GetTxs(ctx context.Context) ([][]byte, error) {
	c.enter("exec.gettxs")
	txs, err := c.Inner.GetTxs(ctx)
	c.Fate.Check()
	c.log(ExecCall{Kind: "gettxs", Txs: txs, Err: err != nil})
	return txs, err
}

func (c *RealExec) ExecuteTxs(ctx context.Context, txs [][]byte, height uint64, ts time.Time, prev []byte) ([]byte, uint64, error) {
	c.enter(fmt.Sprintf("exec.exec %d", height))
	call := ExecCall{Kind: "exec", Height: height, Prev: append([]byte(nil), prev...)}
	for _, tx := range txs {
		call.Txs = append(call.Txs, append([]byte(nil), tx...))
	}
	r, g, err := c.Inner.ExecuteTxs(ctx, txs, height, ts, prev)
	c.Fate.Check()
	call.Root, call.Err = append([]byte(nil), r...), err != nil
	c.log(call)
	return r, g, err
}

func (c *RealExec) SetFinal(ctx context.Context, height uint64) error {
	c.enter(fmt.Sprintf("exec.final %d", height))
	err := c.Inner.SetFinal(ctx, height)
	c.Fate.Check()
	c.log(ExecCall{Kind: "final", Height: height, Err: err != nil})
	return err
}

// BuildChainExec is BuildChain for a chain whose execution layer is supplied by the caller (execImpl is called once,
// for the producer process) and whose transaction lists come from txSet. Differences to BuildChain:
//   - pattern[0] describes the block AT the initial height (BuildChain's patterns start one block above it and the
//     block at the initial height is always the empty one that NewManager pre-saves). For a non-empty pattern[0]
//     the proposer's own createBlock builds that block and it is saved as the pending block of the initial height
//     (what publishBlock does with every block it creates before applying it); the production step then takes it
//     from there exactly as it takes the pre-saved empty one. Such a block is valid for every full node (nothing in
//     the validation rules says that the first block is empty).
//   - AppHash[k] is the proposer's recorded state root after block k as the real executor returned it (cross-checked
//     against the next header's app hash), not the hash chain of the Exec double.
//
// cacheKey must identify (txSet, execImpl); "" = do not cache.
func BuildChainExec(cacheKey, pattern string, initial uint64, txSet func(letter byte) [][]byte, execImpl func(n *Node) any) (*ProducerChain, error) {
	if len(pattern) == 0 {
		return nil, fmt.Errorf("empty pattern")
	}
	key := ""
	if cacheKey != "" {
		key = fmt.Sprintf("exec:%s:%s/%d", cacheKey, pattern, initial)
		chainMu.Lock()
		defer chainMu.Unlock()
		if pc, ok := chainCache[key]; ok {
			return pc, nil
		}
	}
	p := Params{InitialHeight: initial}.withDefaults()
	env := NewEnv()
	clock := GenesisTime.Add(time.Second)
	i := 1
	env.Seq.Next = func(req coreseq.GetNextBatchRequest) SeqAnswer {
		clock = clock.Add(time.Second)
		txs := txSet(pattern[i])
		i++
		return SeqAnswer{Kind: "batch", Txs: txs, Time: clock}
	}
	n, err := StartNode(p, env, nil, NodeOpts{Aggregator: true, ExecImpl: execImpl})
	if err != nil {
		return nil, err
	}
	ctx := context.Background()
	if txs := txSet(pattern[0]); len(txs) > 0 {
		h, d, err := n.M.VerifCreateBlock(ctx, initial, &types.Signature{}, nil, txs, clock)
		if err != nil {
			return nil, fmt.Errorf("first block: %w", err)
		}
		if err := n.Store.SaveBlockData(ctx, h, d, &types.Signature{}); err != nil {
			return nil, fmt.Errorf("first block: %w", err)
		}
	}
	pc := &ProducerChain{Pattern: pattern, Initial: initial, Params: p}
	for s := 0; s < len(pattern); s++ {
		if err, _ := n.Produce(ctx); err != nil {
			return nil, fmt.Errorf("producer step %d: %w", s, err)
		}
		st, err := n.OracleStore().GetState(ctx)
		if err != nil {
			return nil, fmt.Errorf("producer step %d: %w", s, err)
		}
		if st.LastBlockHeight != initial+uint64(s) {
			return nil, fmt.Errorf("producer step %d left the state at height %d", s, st.LastBlockHeight)
		}
		pc.AppHash = append(pc.AppHash, append([]byte(nil), st.AppHash...))
	}
	_, blocks, f := ReadChain(n.OracleStore(), initial)
	if f != nil {
		return nil, fmt.Errorf("producer chain unreadable: %s", f.Msg)
	}
	if len(blocks) != len(pattern) {
		return nil, fmt.Errorf("producer committed %d blocks, want %d", len(blocks), len(pattern))
	}
	hs, err := n.M.VerifPendingHeaders(ctx)
	if err != nil {
		return nil, err
	}
	sds, err := n.M.VerifCreateSignedData(ctx)
	if err != nil {
		return nil, err
	}
	sdBy := map[uint64][]byte{}
	for _, sd := range sds {
		bz, err := sd.MarshalBinary()
		if err != nil {
			return nil, err
		}
		sdBy[sd.Height()] = bz
	}
	for k, b := range blocks {
		if !TxsEqual(txsOf(b.D), txSet(pattern[k])) {
			return nil, fmt.Errorf("producer block %d carries %q, want %q", k, txsOf(b.D), txSet(pattern[k]))
		}
		if err := types.Validate(b.H, b.D); err != nil {
			return nil, fmt.Errorf("producer block %d: %w", k, err)
		}
		if k > 0 {
			if string(b.H.LastHeaderHash) != string(blocks[k-1].H.Hash()) {
				return nil, fmt.Errorf("producer block %d is not linked to its predecessor", k)
			}
			if string(b.H.AppHash) != string(pc.AppHash[k-1]) {
				return nil, fmt.Errorf("producer block %d carries app hash %X, recorded root after the previous block is %X", k, []byte(b.H.AppHash), pc.AppHash[k-1])
			}
		}
		hb, err := b.H.MarshalBinary()
		if err != nil {
			return nil, err
		}
		db, err := b.D.MarshalBinary()
		if err != nil {
			return nil, err
		}
		pc.Headers = append(pc.Headers, hb)
		pc.Data = append(pc.Data, db)
		pc.Hashes = append(pc.Hashes, b.H.Hash())
		pc.Txs = append(pc.Txs, txsOf(b.D))
		if k < len(hs) {
			hp, err := hs[k].ToProto()
			if err != nil {
				return nil, err
			}
			blob, err := proto.Marshal(hp)
			if err != nil {
				return nil, err
			}
			pc.HdrBlobs = append(pc.HdrBlobs, blob)
		} else {
			pc.HdrBlobs = append(pc.HdrBlobs, nil)
		}
		pc.DatBlobs = append(pc.DatBlobs, sdBy[b.H.Height()])
	}
	if key != "" {
		chainCache[key] = pc
	}
	return pc, nil
}
