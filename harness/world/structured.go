package world

import (
	"fmt"
	"sort"
	"strings"

	"google.golang.org/protobuf/proto"
	"google.golang.org/protobuf/reflect/protoreflect"
)

// Structurally incomplete protobuf, derived from a genuine message (shared by C03 and usable by C09, whose part 4
// carries the same algorithm privately).
//
// The populated fields of the whole message tree (sub-messages, scalar fields, every element of a repeated field) are
// the NODES. Two families are enumerated from the nodes, nothing is hand-picked:
//   deletion:  every set of <= kDel nodes (no node below another one of the set) is removed; a sub-message node is
//              either removed or left present-but-empty;
//   minimal:   every set of <= kKeep leaves (a scalar field, one element of a repeated field, or a sub-message left
//              empty) is kept together with its ancestors, everything else is absent.

// PNode is one populated field of a message tree.
type PNode struct {
	Path     string
	fd       protoreflect.FieldDescriptor
	idx      int // element index for an element of a repeated field, else -1
	parent   *PNode
	children []*PNode
	isMsg    bool // singular sub-message
	isList   bool // a repeated field as a whole (children = its elements)
}

func (n *PNode) below(o *PNode) bool {
	for p := n.parent; p != nil; p = p.parent {
		if p == o {
			return true
		}
	}
	return false
}

// buildPTree lists the populated fields of m in field-number order (deterministic).
func buildPTree(m protoreflect.Message, prefix string, parent *PNode, all *[]*PNode) []*PNode {
	var out []*PNode
	fds := m.Descriptor().Fields()
	order := make([]int, fds.Len())
	for i := range order {
		order[i] = i
	}
	sort.Slice(order, func(a, b int) bool { return fds.Get(order[a]).Number() < fds.Get(order[b]).Number() })
	for _, i := range order {
		fd := fds.Get(i)
		if !m.Has(fd) {
			continue
		}
		n := &PNode{Path: prefix + string(fd.Name()), fd: fd, idx: -1, parent: parent}
		*all = append(*all, n)
		switch {
		case fd.IsList():
			n.isList = true
			l := m.Get(fd).List()
			for k := 0; k < l.Len(); k++ {
				e := &PNode{Path: fmt.Sprintf("%s[%d]", n.Path, k), fd: fd, idx: k, parent: n}
				n.children = append(n.children, e)
				*all = append(*all, e)
			}
		case fd.Kind() == protoreflect.MessageKind:
			n.isMsg = true
			n.children = buildPTree(m.Get(fd).Message(), n.Path+".", n, all)
		}
		out = append(out, n)
	}
	return out
}

// renderP copies src keeping only the nodes for which keep says yes; a sub-message in emptied is kept without content.
func renderP(src protoreflect.Message, nodes []*PNode, keep func(*PNode) bool, emptied map[*PNode]bool) protoreflect.Message {
	dst := src.New()
	for _, n := range nodes {
		if !keep(n) {
			continue
		}
		switch {
		case n.isList:
			sl := src.Get(n.fd).List()
			var dl protoreflect.List
			for _, e := range n.children {
				if keep(e) {
					if dl == nil {
						dl = dst.Mutable(n.fd).List()
					}
					dl.Append(sl.Get(e.idx))
				}
			}
		case n.isMsg:
			if emptied[n] {
				dst.Set(n.fd, protoreflect.ValueOfMessage(src.Get(n.fd).Message().New()))
			} else {
				dst.Set(n.fd, protoreflect.ValueOfMessage(renderP(src.Get(n.fd).Message(), n.children, keep, emptied)))
			}
		default:
			dst.Set(n.fd, src.Get(n.fd))
		}
	}
	return dst
}

// Combos calls f with every subset of 0..n-1 of size 1..k (lexicographic). f must not keep the slice.
func Combos(n, k int, f func([]int)) {
	var cur []int
	var rec func(from int)
	rec = func(from int) {
		if len(cur) > 0 {
			f(cur)
		}
		if len(cur) == k {
			return
		}
		for i := from; i < n; i++ {
			cur = append(cur, i)
			rec(i + 1)
			cur = cur[:len(cur)-1]
		}
	}
	rec(0)
}

type structOp struct {
	n     *PNode
	empty bool // leave the sub-message present but empty (instead of: remove / keep with content)
}

func (o structOp) String() string {
	if o.empty {
		return o.n.Path + "={}"
	}
	return o.n.Path
}

// StructForm is one structurally incomplete variant of a genuine message.
type StructForm struct {
	M    proto.Message
	Desc string // e.g. "delete{data.metadata}" or "only{data.txs[0]}"
}

// StructuredForms enumerates the deletion family (<= kDel nodes) and the minimal family (<= kKeep leaves) of one
// genuine message, in a deterministic order; nodes is the number of populated nodes of its tree. The unchanged
// message itself is not among the forms.
func StructuredForms(msg proto.Message, kDel, kKeep int) (out []StructForm, nodes int) {
	src := msg.ProtoReflect()
	var all []*PNode
	top := buildPTree(src, "", nil, &all)
	nodes = len(all)
	add := func(m protoreflect.Message, desc string) {
		out = append(out, StructForm{m.Interface(), desc})
	}
	conflict := func(sel []structOp) bool {
		for i, a := range sel {
			for j, b := range sel {
				if i != j && (a.n == b.n || a.n.below(b.n)) {
					return true
				}
			}
		}
		return false
	}
	names := func(sel []structOp) string {
		var s []string
		for _, o := range sel {
			s = append(s, o.String())
		}
		return strings.Join(s, ",")
	}
	// deletion family
	var delOps []structOp
	for _, n := range all {
		delOps = append(delOps, structOp{n, false})
		if n.isMsg {
			delOps = append(delOps, structOp{n, true})
		}
	}
	if kDel > 0 {
		Combos(len(delOps), kDel, func(ix []int) {
			var sel []structOp
			for _, i := range ix {
				sel = append(sel, delOps[i])
			}
			if conflict(sel) {
				return
			}
			gone, emptied := map[*PNode]bool{}, map[*PNode]bool{}
			for _, o := range sel {
				if o.empty {
					emptied[o.n] = true
				} else {
					gone[o.n] = true
				}
			}
			add(renderP(src, top, func(n *PNode) bool { return !gone[n] }, emptied), "delete{"+names(sel)+"}")
		})
	}
	// minimal family
	var keepOps []structOp
	for _, n := range all {
		switch {
		case n.isMsg:
			keepOps = append(keepOps, structOp{n, true})
		case n.isList:
		default:
			keepOps = append(keepOps, structOp{n, false})
		}
	}
	if kKeep > 0 {
		Combos(len(keepOps), kKeep, func(ix []int) {
			var sel []structOp
			for _, i := range ix {
				sel = append(sel, keepOps[i])
			}
			if conflict(sel) {
				return
			}
			kept, emptied := map[*PNode]bool{}, map[*PNode]bool{}
			for _, o := range sel {
				if o.empty {
					emptied[o.n] = true
				}
				for p := o.n; p != nil; p = p.parent {
					kept[p] = true
				}
			}
			add(renderP(src, top, func(n *PNode) bool { return kept[n] }, emptied), "only{"+names(sel)+"}")
		})
	}
	return
}

// DetMarshal is the deterministic protobuf encoding used for structured forms.
var DetMarshal = proto.MarshalOptions{Deterministic: true}
