package world

import (
	"sync"

	"github.com/evstack/ev-node/verifshim/vsync"
)

// Lock entry as a scheduling point (opt-in, per scheduler).
//
// By default the lock shim parks a thread only when the lock it wants is held, so everything a thread does between
// its previous gate and a successful Lock() is one atomic step of the schedule. A check that must separate "what a
// thread evaluated before Lock()" from its critical section (stale reads of shared state outside the lock, then
// another thread runs completely, then the first one continues) calls EnablePreLockGates() once per process, before
// any exploration, and GateLocks() on every scheduler: from then on each Lock/RLock of a thread of that scheduler
// is preceded by a gate "prelock:<op>". Schedulers that did not opt in are not affected.

var preLockScheds sync.Map // *Sched -> struct{}

// EnablePreLockGates installs the shim's PreLock hook. Call it once, before any scheduled thread exists.
func EnablePreLockGates() {
	vsync.PreLock = func(op string) {
		v, ok := threads.Load(goid())
		if !ok {
			return
		}
		s := v.(*Sched)
		if _, on := preLockScheds.Load(s); !on {
			return
		}
		s.gate("prelock:"+op, nil)
	}
}

// GateLocks makes every Lock/RLock entry of this scheduler's threads a scheduling point (needs EnablePreLockGates).
// The returned function undoes it (call it when the world is torn down).
func (s *Sched) GateLocks() (undo func()) {
	preLockScheds.Store(s, struct{}{})
	return func() { preLockScheds.Delete(s) }
}

// ParkedOps returns, for every parked thread, the gate it is parked at (thread name -> op).
func (s *Sched) ParkedOps() map[string]string {
	s.mu.Lock()
	defer s.mu.Unlock()
	out := make(map[string]string, len(s.parked))
	for n, p := range s.parked {
		out[n] = p.op
	}
	return out
}
