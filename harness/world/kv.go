// Package world holds the deterministic doubles (datastore, DA, executor, sequencer, P2P stores, broadcasters)
// and the composite worlds around the real block.Manager.
package world

import (
	"context"
	"fmt"
	"runtime"
	"sort"
	"strings"
	"sync"
	"sync/atomic"

	ds "github.com/ipfs/go-datastore"
	dsq "github.com/ipfs/go-datastore/query"
)

// Fate is shared by all doubles of one node process: once the process has "crashed", every further call from
// code under test ends the calling goroutine (runtime.Goexit), so nothing is observed or written after the crash.
type Fate struct {
	crashed atomic.Bool
}

func (f *Fate) Crashed() bool { return f != nil && f.crashed.Load() }

// Check must be called at the entry of every double method.
func (f *Fate) Check() {
	if f != nil && f.crashed.Load() {
		runtime.Goexit()
	}
}

// Die marks the process as crashed and ends the calling goroutine.
func (f *Fate) Die() {
	f.crashed.Store(true)
	runtime.Goexit()
}

// Kill marks the process as crashed without ending the caller (harness side).
func (f *Fate) Kill() { f.crashed.Store(true) }

// Write is one durable write: a Put, a Delete, or one committed batch (atomic unit).
type Write struct {
	Kind string // "put" | "del" | "batch"
	Ops  []KVOp
}

type KVOp struct {
	Key string
	Val []byte // nil = delete
}

func (w Write) String() string {
	var ks []string
	for _, o := range w.Ops {
		if o.Val == nil {
			ks = append(ks, "-"+o.Key)
		} else {
			ks = append(ks, o.Key)
		}
	}
	return w.Kind + "(" + strings.Join(ks, ",") + ")"
}

// KV is an in-memory ds.Batching with sorted iteration (like badger), a log of durable writes and crash injection.
type KV struct {
	mu   sync.Mutex
	data map[string][]byte
	base map[string][]byte // image at construction
	log  []Write

	Fate *Fate
	// OnWrite is consulted before every durable write (index in the log, the write); returning true crashes the
	// process before the write is applied.
	OnWrite func(idx int, w Write) bool
	// FailWrite is consulted before every durable write; returning true makes the write fail with a transient
	// I/O error (nothing is written, the process goes on).
	FailWrite func(idx int, w Write) bool
	// Gate, if set, is called before every operation (scheduling point).
	Gate func(op string)
	// FailNext makes the next n writes fail with an error (transient I/O error), without crashing.
	closed bool
}

var _ ds.Batching = (*KV)(nil)

// ErrTransientIO is what an injected write failure returns.
var ErrTransientIO = fmt.Errorf("kv: transient I/O error (injected)")

func NewKV(image map[string][]byte) *KV {
	kv := &KV{data: map[string][]byte{}, base: map[string][]byte{}, Fate: &Fate{}}
	for k, v := range image {
		kv.data[k] = append([]byte(nil), v...)
		kv.base[k] = append([]byte(nil), v...)
	}
	return kv
}

// Image returns a deep copy of the current durable contents.
func (kv *KV) Image() map[string][]byte {
	kv.mu.Lock()
	defer kv.mu.Unlock()
	out := make(map[string][]byte, len(kv.data))
	for k, v := range kv.data {
		out[k] = append([]byte(nil), v...)
	}
	return out
}

// ImageAfter returns the contents after the first n logged writes.
func (kv *KV) ImageAfter(n int) map[string][]byte {
	kv.mu.Lock()
	defer kv.mu.Unlock()
	out := make(map[string][]byte, len(kv.base))
	for k, v := range kv.base {
		out[k] = append([]byte(nil), v...)
	}
	for i := 0; i < n && i < len(kv.log); i++ {
		for _, o := range kv.log[i].Ops {
			if o.Val == nil {
				delete(out, o.Key)
			} else {
				out[o.Key] = append([]byte(nil), o.Val...)
			}
		}
	}
	return out
}

func (kv *KV) Log() []Write {
	kv.mu.Lock()
	defer kv.mu.Unlock()
	return append([]Write(nil), kv.log...)
}

func (kv *KV) NumWrites() int {
	kv.mu.Lock()
	defer kv.mu.Unlock()
	return len(kv.log)
}

// Canon is a canonical dump of the contents (sorted).
func (kv *KV) Canon() string {
	kv.mu.Lock()
	defer kv.mu.Unlock()
	return CanonImage(kv.data)
}

func CanonImage(m map[string][]byte) string {
	keys := make([]string, 0, len(m))
	for k := range m {
		keys = append(keys, k)
	}
	sort.Strings(keys)
	var sb strings.Builder
	for _, k := range keys {
		fmt.Fprintf(&sb, "%s=%x;", k, m[k])
	}
	return sb.String()
}

// RawGet reads without gating or fate (harness/oracle side).
func (kv *KV) RawGet(key string) ([]byte, bool) {
	kv.mu.Lock()
	defer kv.mu.Unlock()
	v, ok := kv.data[key]
	return v, ok
}

func (kv *KV) Keys(prefix string) []string {
	kv.mu.Lock()
	defer kv.mu.Unlock()
	var ks []string
	for k := range kv.data {
		if strings.HasPrefix(k, prefix) {
			ks = append(ks, k)
		}
	}
	sort.Strings(ks)
	return ks
}

func (kv *KV) enter(op string) {
	kv.Fate.Check()
	if kv.Gate != nil {
		kv.Gate(op)
		kv.Fate.Check()
	}
}

func (kv *KV) apply(w Write) error {
	kv.mu.Lock()
	idx := len(kv.log)
	hook := kv.OnWrite
	kv.mu.Unlock()
	if hook != nil && hook(idx, w) {
		kv.Fate.Die()
	}
	if kv.FailWrite != nil && kv.FailWrite(idx, w) {
		return ErrTransientIO
	}
	kv.mu.Lock()
	defer kv.mu.Unlock()
	for _, o := range w.Ops {
		if o.Val == nil {
			delete(kv.data, o.Key)
		} else {
			kv.data[o.Key] = append([]byte(nil), o.Val...)
		}
	}
	kv.log = append(kv.log, w)
	return nil
}

func (kv *KV) Get(ctx context.Context, key ds.Key) ([]byte, error) {
	kv.enter("kv.get " + key.String())
	kv.mu.Lock()
	defer kv.mu.Unlock()
	v, ok := kv.data[key.String()]
	if !ok {
		return nil, ds.ErrNotFound
	}
	return append([]byte(nil), v...), nil
}

func (kv *KV) Has(ctx context.Context, key ds.Key) (bool, error) {
	kv.enter("kv.has " + key.String())
	kv.mu.Lock()
	defer kv.mu.Unlock()
	_, ok := kv.data[key.String()]
	return ok, nil
}

func (kv *KV) GetSize(ctx context.Context, key ds.Key) (int, error) {
	kv.enter("kv.size " + key.String())
	kv.mu.Lock()
	defer kv.mu.Unlock()
	v, ok := kv.data[key.String()]
	if !ok {
		return -1, ds.ErrNotFound
	}
	return len(v), nil
}

func (kv *KV) Query(ctx context.Context, q dsq.Query) (dsq.Results, error) {
	kv.enter("kv.query " + q.Prefix)
	kv.mu.Lock()
	keys := make([]string, 0, len(kv.data))
	for k := range kv.data {
		keys = append(keys, k)
	}
	sort.Strings(keys)
	es := make([]dsq.Entry, 0, len(keys))
	for _, k := range keys {
		v := kv.data[k]
		e := dsq.Entry{Key: k, Size: len(v)}
		if !q.KeysOnly {
			e.Value = append([]byte(nil), v...)
		}
		es = append(es, e)
	}
	kv.mu.Unlock()
	r := dsq.ResultsWithEntries(q, es)
	return dsq.NaiveQueryApply(q, r), nil
}

func (kv *KV) Put(ctx context.Context, key ds.Key, value []byte) error {
	kv.enter("kv.put " + key.String())
	if value == nil {
		value = []byte{}
	}
	return kv.apply(Write{Kind: "put", Ops: []KVOp{{key.String(), append([]byte{}, value...)}}})
}

func (kv *KV) Delete(ctx context.Context, key ds.Key) error {
	kv.enter("kv.del " + key.String())
	return kv.apply(Write{Kind: "del", Ops: []KVOp{{key.String(), nil}}})
}

func (kv *KV) Sync(ctx context.Context, prefix ds.Key) error { kv.Fate.Check(); return nil }
func (kv *KV) Close() error                                 { kv.closed = true; return nil }

type kvBatch struct {
	kv  *KV
	ops []KVOp
}

func (kv *KV) Batch(ctx context.Context) (ds.Batch, error) {
	kv.Fate.Check()
	return &kvBatch{kv: kv}, nil
}

func (b *kvBatch) Put(ctx context.Context, key ds.Key, value []byte) error {
	b.kv.Fate.Check()
	if value == nil {
		value = []byte{}
	}
	b.ops = append(b.ops, KVOp{key.String(), append([]byte{}, value...)})
	return nil
}

func (b *kvBatch) Delete(ctx context.Context, key ds.Key) error {
	b.kv.Fate.Check()
	b.ops = append(b.ops, KVOp{key.String(), nil})
	return nil
}

func (b *kvBatch) Commit(ctx context.Context) error {
	b.kv.enter("kv.commit")
	ops := b.ops
	b.ops = nil
	return b.kv.apply(Write{Kind: "batch", Ops: ops})
}
