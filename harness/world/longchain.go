package world

import (
	"context"
	"fmt"
	"time"

	"google.golang.org/protobuf/proto"

	coreseq "github.com/evstack/ev-node/core/sequencer"
)

// LongNonEmpty tells whether the block at index i (0 = the block at the initial height, always empty) of a long chain
// of total blocks carries transactions: the blocks on both sides of every multiple of 64 (heights 64, 65, 128, 129, ...,
// 256, 257, ... for initial height 1) and the last one. Everything else is an empty block.
func LongNonEmpty(i, total int) bool {
	return i > 0 && (i%64 == 63 || i%64 == 0 || i == total-1)
}

// LongTxs is the transaction list of block i of a long chain: 1..3 transactions that name the block, so that no two
// blocks of the chain share a data commitment.
func LongTxs(i, total int) [][]byte {
	if !LongNonEmpty(i, total) {
		return nil
	}
	var txs [][]byte
	for k := 0; k <= i%3; k++ {
		txs = append(txs, []byte(fmt.Sprintf("tx-long-%d-%d", i, k)))
	}
	return txs
}

// BuildLongChain is BuildChain for long chains: a real aggregator commits total blocks (the first one is the empty
// block at the initial height 1), mostly empty ones, with the transaction lists of LongTxs. Pattern holds one letter
// per block above the first: e = empty, x = non-empty. The chain is NOT kept in the chain cache (a
// check walks through hundreds of lengths and needs each chain once).
func BuildLongChain(total int) (*ProducerChain, error) {
	if total < 2 {
		return nil, fmt.Errorf("long chain needs at least 2 blocks")
	}
	const initial = 1
	p := Params{InitialHeight: initial}.withDefaults()
	env := NewEnv()
	clock := GenesisTime
	i := 0
	env.Seq.Next = func(req coreseq.GetNextBatchRequest) SeqAnswer {
		clock = clock.Add(time.Second)
		i++
		return SeqAnswer{Kind: "batch", Txs: LongTxs(i, total), Time: clock}
	}
	n, err := StartNode(p, env, nil, NodeOpts{Aggregator: true})
	if err != nil {
		return nil, err
	}
	ctx := context.Background()
	for s := 0; s < total; s++ {
		if err, _ := n.Produce(ctx); err != nil {
			return nil, fmt.Errorf("producer step %d: %w", s, err)
		}
	}
	_, blocks, f := CheckChain(n.OracleStore(), ChainSpec{ChainID: p.ChainID, Initial: initial, Proposer: n.Signer, Payload: p.PayloadProvider()})
	if f != nil {
		return nil, fmt.Errorf("producer chain invalid: %s", f.Msg)
	}
	if len(blocks) != total {
		return nil, fmt.Errorf("producer committed %d blocks, want %d", len(blocks), total)
	}
	pat := make([]byte, 0, total-1)
	for k := 1; k < total; k++ {
		if LongNonEmpty(k, total) {
			pat = append(pat, 'x')
		} else {
			pat = append(pat, 'e')
		}
	}
	pc := &ProducerChain{Pattern: string(pat), Initial: initial, Params: p}
	roots := RootsOf(p.ChainID, blocks)
	hs, err := n.M.VerifPendingHeaders(ctx)
	if err != nil {
		return nil, err
	}
	if len(hs) != total {
		return nil, fmt.Errorf("producer has %d pending headers, want %d", len(hs), total)
	}
	sds, err := n.M.VerifCreateSignedData(ctx)
	if err != nil {
		return nil, err
	}
	sdBy := map[uint64][]byte{}
	for _, sd := range sds {
		bz, err := sd.MarshalBinary()
		if err != nil {
			return nil, err
		}
		sdBy[sd.Height()] = bz
	}
	for k, b := range blocks {
		if !TxsEqual(txsOf(b.D), LongTxs(k, total)) {
			return nil, fmt.Errorf("producer block %d carries %q, want %q", k, txsOf(b.D), LongTxs(k, total))
		}
		hb, err := b.H.MarshalBinary()
		if err != nil {
			return nil, err
		}
		db, err := b.D.MarshalBinary()
		if err != nil {
			return nil, err
		}
		pc.Headers = append(pc.Headers, hb)
		pc.Data = append(pc.Data, db)
		pc.Hashes = append(pc.Hashes, b.H.Hash())
		pc.AppHash = append(pc.AppHash, roots[k])
		pc.Txs = append(pc.Txs, txsOf(b.D))
		hp, err := hs[k].ToProto()
		if err != nil {
			return nil, err
		}
		blob, err := proto.Marshal(hp)
		if err != nil {
			return nil, err
		}
		pc.HdrBlobs = append(pc.HdrBlobs, blob)
		pc.DatBlobs = append(pc.DatBlobs, sdBy[b.H.Height()])
		if (len(pc.Txs[k]) > 0) != (pc.DatBlobs[k] != nil) {
			return nil, fmt.Errorf("producer block %d: %d transactions but data blob present = %v", k, len(pc.Txs[k]), pc.DatBlobs[k] != nil)
		}
	}
	return pc, nil
}
