package world

// SubmittedCopy returns the batches submitted so far (safe to call concurrently with the sequencer double's clients).
func (s *Seq) SubmittedCopy() [][][]byte {
	s.mu.Lock()
	defer s.mu.Unlock()
	return append([][][]byte(nil), s.Submitted...)
}
