package world

import (
	"crypto/ed25519"
	"crypto/sha256"

	"github.com/libp2p/go-libp2p/core/crypto"

	"github.com/evstack/ev-node/pkg/signer"
	"github.com/evstack/ev-node/types"
)

// FixedSigner is a deterministic ed25519 signer (seed-derived), implementing signer.Signer like the noop signer.
type FixedSigner struct {
	priv crypto.PrivKey
	pub  crypto.PubKey
	addr []byte
}

var _ signer.Signer = (*FixedSigner)(nil)

func NewFixedSigner(seed string) *FixedSigner {
	h := sha256.Sum256([]byte("verif-signer-" + seed))
	edk := ed25519.NewKeyFromSeed(h[:])
	priv, err := crypto.UnmarshalEd25519PrivateKey(edk)
	if err != nil {
		panic(err)
	}
	pub := priv.GetPublic()
	return &FixedSigner{priv: priv, pub: pub, addr: types.KeyAddress(pub)}
}

func (s *FixedSigner) Sign(message []byte) ([]byte, error) { return s.priv.Sign(message) }
func (s *FixedSigner) GetPublic() (crypto.PubKey, error)   { return s.pub, nil }
func (s *FixedSigner) GetAddress() ([]byte, error)         { return s.addr, nil }
func (s *FixedSigner) Pub() crypto.PubKey                  { return s.pub }
func (s *FixedSigner) Addr() []byte                        { return s.addr }
