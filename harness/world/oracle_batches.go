package world

import (
	"bytes"
	"fmt"
	"strings"
)

// DescribeTxs renders a transaction list compactly (length and a short prefix per element), so that failure
// messages stay readable with zero-length and very large transactions.
func DescribeTxs(txs [][]byte) string {
	var sb strings.Builder
	fmt.Fprintf(&sb, "%d tx [", len(txs))
	for i, tx := range txs {
		if i > 0 {
			sb.WriteString(" ")
		}
		if len(tx) <= 12 {
			fmt.Fprintf(&sb, "%d:%q", len(tx), tx)
		} else {
			fmt.Fprintf(&sb, "%d:%q…", len(tx), tx[:12])
		}
	}
	sb.WriteString("]")
	return sb.String()
}

// firstTxDiff returns the first index at which two transaction lists differ (length of the shorter one if one is a
// prefix of the other), -1 if they are equal element by element (nil and zero-length are the same value).
func firstTxDiff(a, b [][]byte) int {
	for i := 0; i < len(a) && i < len(b); i++ {
		if !bytes.Equal(a[i], b[i]) {
			return i
		}
	}
	if len(a) != len(b) {
		return min(len(a), len(b))
	}
	return -1
}

// CheckBuiltFrom is the batch-correspondence clause of C01 for a world in which every block is built from exactly
// one batch answer of the sequencing layer: handed = EVERY batch the sequencing layer handed out, in order, the empty
// ones included. Every committed block — empty blocks too — must carry exactly the transaction list of one of them
// (same number of transactions, each equal byte for byte, in order; a zero-length transaction is a transaction), and
// successive blocks take their batches in hand-out order (a batch may be skipped, e.g. refused for its timestamp, but
// never reordered or used twice).
func CheckBuiltFrom(blocks []Block, initial uint64, handed [][][]byte) *Fail {
	bi := 0
	for i, b := range blocks {
		txs := txsOf(b.D)
		found := false
		from := bi
		for bi < len(handed) {
			if firstTxDiff(handed[bi], txs) < 0 {
				found = true
				bi++
				break
			}
			bi++
		}
		if found {
			continue
		}
		msg := fmt.Sprintf("block %d carries %s, which is not the transaction list of any batch the sequencing layer handed out after the batches of earlier blocks", initial+uint64(i), DescribeTxs(txs))
		if from < len(handed) {
			msg += fmt.Sprintf("; next unused batch is %s (first difference at index %d)", DescribeTxs(handed[from]), firstTxDiff(handed[from], txs))
		} else {
			msg += "; no unused batch is left"
		}
		return &Fail{Clause: "batch-contents", Msg: msg}
	}
	return nil
}
