package world

import (
	"bytes"
	"runtime"
	"sort"
	"strconv"
	"strings"
	"sync"
	"testing/synctest"

	"github.com/evstack/ev-node/verifshim/vsync"
)

// Sched is a cooperative scheduler for real goroutines inside a synctest bubble. Every call into a double is a gate:
// the calling goroutine parks until the scheduler grants it. The scheduler waits for exact quiescence
// (synctest.Wait), collects the parked threads in a canonical order and lets the explorer choose who continues, so
// exactly one registered thread runs at a time and the execution is a deterministic function of the choices.
type Sched struct {
	mu     sync.Mutex
	names  map[uint64]string // goroutine id -> thread name
	parked map[string]*parkedThr
	last   string
	// Choose picks one of n parked threads (0 = canonical default: the thread that ran last, else the first by name).
	Choose func(n int, names []string) int
	Trace  []string
	Steps  int
	Sends  int // granted gates before sends into the sync loop's input channels
	// Interrupt, if set, is asked before every grant; returning true makes Drain return at once with
	// Interrupted set (the harness stops or restarts the world between two steps of the threads).
	Interrupt   func() bool
	Interrupted bool
	// OnStep, if set, is called by Drain between any two steps (all threads parked or blocked): state invariants that
	// must hold at every instant are evaluated here.
	OnStep func()
	// Virtuals are harness-side actions that take part in scheduling like threads (e.g. delivering a queued event).
	Virtuals []*Virtual
	off      bool
}

// Virtual is a schedulable harness action.
type Virtual struct {
	Name    string
	Enabled func() bool
	Run     func()
}

// IsParked tells whether the named thread is parked at a gate (i.e. busy, not idle in a select).
func (s *Sched) IsParked(name string) bool {
	s.mu.Lock()
	defer s.mu.Unlock()
	_, ok := s.parked[name]
	return ok
}

type parkedThr struct {
	name    string
	op      string
	grant   chan struct{}
	enabled func() bool // nil = always; a thread waiting for a lock is enabled only while the lock can be taken
}

// threads maps goroutine ids of scheduled threads to their scheduler (for the lock shim).
var threads sync.Map

func init() {
	vsync.Hook = func(op string, enabled func() bool) int {
		v, ok := threads.Load(goid())
		if !ok {
			return 0
		}
		s := v.(*Sched)
		if !s.gate("lock:"+op, enabled) {
			return 2
		}
		return 1
	}
}

func NewSched(choose func(n int, names []string) int) *Sched {
	return &Sched{names: map[uint64]string{}, parked: map[string]*parkedThr{}, Choose: choose}
}

func goid() uint64 {
	var buf [64]byte
	n := runtime.Stack(buf[:], false)
	// "goroutine 123 [running]:..."
	b := buf[len("goroutine "):n]
	i := bytes.IndexByte(b, ' ')
	id, _ := strconv.ParseUint(string(b[:i]), 10, 64)
	return id
}

// Go starts f as a named thread.
func (s *Sched) Go(name string, f func()) {
	go func() {
		id := goid()
		s.mu.Lock()
		s.names[id] = name
		s.mu.Unlock()
		threads.Store(id, s)
		defer func() {
			threads.Delete(id)
			s.mu.Lock()
			delete(s.names, id)
			s.mu.Unlock()
		}()
		s.Gate("start") // the scheduler, not the Go runtime, decides which new thread runs first
		f()
	}()
}

// Off turns the gates into pass-through (used when the world is torn down).
func (s *Sched) Off() {
	s.mu.Lock()
	s.off = true
	for _, p := range s.parked {
		close(p.grant)
	}
	s.parked = map[string]*parkedThr{}
	s.mu.Unlock()
}

// Gate parks the calling goroutine (if it is a registered thread) until it is granted.
func (s *Sched) Gate(op string) { s.gate(op, nil) }

// gate returns false when the scheduler is off (the world is being torn down).
func (s *Sched) gate(op string, enabled func() bool) bool {
	id := goid()
	s.mu.Lock()
	name, ok := s.names[id]
	if s.off {
		s.mu.Unlock()
		return false
	}
	if !ok {
		s.mu.Unlock()
		return true // not a scheduled thread (harness goroutine, helper goroutine): pass through
	}
	p := &parkedThr{name: name, op: op, grant: make(chan struct{}), enabled: enabled}
	s.parked[name] = p
	s.mu.Unlock()
	<-p.grant
	s.mu.Lock()
	off := s.off
	s.mu.Unlock()
	return !off
}

// Blocked lists the parked threads that cannot be granted (waiting for a lock), as "name:op".
func (s *Sched) Blocked() []string {
	s.mu.Lock()
	defer s.mu.Unlock()
	var out []string
	for n, p := range s.parked {
		if p.enabled != nil && !p.enabled() {
			out = append(out, n+" waiting for "+p.op)
		}
	}
	sort.Strings(out)
	return out
}

// Drain schedules parked threads until none is parked (everything is blocked on time or on channels).
// It returns the number of grants.
func (s *Sched) Drain() int {
	grants := 0
	for {
		synctest.Wait()
		if s.OnStep != nil {
			s.OnStep() // every thread is parked or blocked: a consistent instant between two steps
		}
		anyV := s.anyVirtual() // evaluated without holding s.mu (Enabled may ask the scheduler)
		s.mu.Lock()
		if len(s.parked) == 0 && !anyV {
			s.mu.Unlock()
			return grants
		}
		// consumer-idle rule: a thread parked before a send into the sync loop's input channels is enabled only
		// while the consumer ("sync") is idle in its select, so that at most one select case is ready at a time.
		_, syncBusy := s.parked["sync"]
		names := make([]string, 0, len(s.parked))
		for n, p := range s.parked {
			if syncBusy && strings.HasPrefix(p.op, "send:") {
				continue
			}
			if p.enabled != nil && !p.enabled() {
				continue // waiting for a lock that is held
			}
			names = append(names, n)
		}
		s.mu.Unlock()
		virt := map[string]*Virtual{}
		for _, v := range s.Virtuals {
			if v.Enabled() {
				virt[v.Name] = v
				names = append(names, v.Name)
			}
		}
		s.mu.Lock()
		if len(names) == 0 {
			// everything parked is waiting (for a lock, or for the consumer): nothing can be granted now
			s.mu.Unlock()
			return grants
		}
		sort.Strings(names)
		// canonical order: the thread that ran last first (continuing it is not a deviation)
		for i, n := range names {
			if n == s.last {
				copy(names[1:i+1], names[:i])
				names[0] = n
				break
			}
		}
		s.mu.Unlock()
		if s.Interrupt != nil && s.Interrupt() {
			s.Interrupted = true
			return grants
		}
		k := 0
		if len(names) > 1 && s.Choose != nil {
			k = s.Choose(len(names), names)
		}
		if v, ok := virt[names[k]]; ok {
			s.mu.Lock()
			s.last = names[k]
			s.Steps++
			if len(s.Trace) < 400 {
				s.Trace = append(s.Trace, names[k])
			}
			s.mu.Unlock()
			v.Run()
			grants++
			continue
		}
		s.mu.Lock()
		p := s.parked[names[k]]
		delete(s.parked, names[k])
		s.last = names[k]
		s.Steps++
		if strings.HasPrefix(p.op, "send:") {
			s.Sends++
		}
		if len(s.Trace) < 400 {
			s.Trace = append(s.Trace, names[k]+":"+p.op)
		}
		s.mu.Unlock()
		close(p.grant)
		grants++
	}
}

// StepCount is the number of grants so far (safe to call from a monitor goroutine).
func (s *Sched) StepCount() int {
	s.mu.Lock()
	defer s.mu.Unlock()
	return s.Steps
}

// Last names the thread (or virtual action) that was granted last.
func (s *Sched) Last() string {
	s.mu.Lock()
	defer s.mu.Unlock()
	return s.last
}

// Alive lists the registered threads that have not returned yet.
func (s *Sched) Alive() []string {
	s.mu.Lock()
	defer s.mu.Unlock()
	var out []string
	for _, n := range s.names {
		out = append(out, n)
	}
	sort.Strings(out)
	return out
}

func (s *Sched) anyVirtual() bool {
	for _, v := range s.Virtuals {
		if v.Enabled() {
			return true
		}
	}
	return false
}
