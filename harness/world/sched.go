package world

import (
	"bytes"
	"runtime"
	"sort"
	"strconv"
	"strings"
	"sync"
	"testing/synctest"
)

// Sched is a cooperative scheduler for real goroutines inside a synctest bubble. Every call into a double is a gate:
// the calling goroutine parks until the scheduler grants it. The scheduler waits for exact quiescence
// (synctest.Wait), collects the parked threads in a canonical order and lets the explorer choose who continues, so
// exactly one registered thread runs at a time and the execution is a deterministic function of the choices.
type Sched struct {
	mu     sync.Mutex
	names  map[uint64]string // goroutine id -> thread name
	parked map[string]*parkedThr
	last   string
	// Choose picks one of n parked threads (0 = canonical default: the thread that ran last, else the first by name).
	Choose func(n int, names []string) int
	Trace  []string
	Steps  int
	Sends  int // granted gates before sends into the sync loop's input channels
	off    bool
}

type parkedThr struct {
	name  string
	op    string
	grant chan struct{}
}

func NewSched(choose func(n int, names []string) int) *Sched {
	return &Sched{names: map[uint64]string{}, parked: map[string]*parkedThr{}, Choose: choose}
}

func goid() uint64 {
	var buf [64]byte
	n := runtime.Stack(buf[:], false)
	// "goroutine 123 [running]:..."
	b := buf[len("goroutine "):n]
	i := bytes.IndexByte(b, ' ')
	id, _ := strconv.ParseUint(string(b[:i]), 10, 64)
	return id
}

// Go starts f as a named thread.
func (s *Sched) Go(name string, f func()) {
	go func() {
		id := goid()
		s.mu.Lock()
		s.names[id] = name
		s.mu.Unlock()
		defer func() {
			s.mu.Lock()
			delete(s.names, id)
			s.mu.Unlock()
		}()
		f()
	}()
}

// Off turns the gates into pass-through (used when the world is torn down).
func (s *Sched) Off() {
	s.mu.Lock()
	s.off = true
	for _, p := range s.parked {
		close(p.grant)
	}
	s.parked = map[string]*parkedThr{}
	s.mu.Unlock()
}

// Gate parks the calling goroutine (if it is a registered thread) until it is granted.
func (s *Sched) Gate(op string) {
	id := goid()
	s.mu.Lock()
	name, ok := s.names[id]
	if !ok || s.off {
		s.mu.Unlock()
		return // not a scheduled thread (harness goroutine, helper goroutine): pass through
	}
	p := &parkedThr{name: name, op: op, grant: make(chan struct{})}
	s.parked[name] = p
	s.mu.Unlock()
	<-p.grant
}

// Drain schedules parked threads until none is parked (everything is blocked on time or on channels).
// It returns the number of grants.
func (s *Sched) Drain() int {
	grants := 0
	for {
		synctest.Wait()
		s.mu.Lock()
		if len(s.parked) == 0 {
			s.mu.Unlock()
			return grants
		}
		// consumer-idle rule: a thread parked before a send into the sync loop's input channels is enabled only
		// while the consumer ("sync") is idle in its select, so that at most one select case is ready at a time.
		_, syncBusy := s.parked["sync"]
		names := make([]string, 0, len(s.parked))
		for n, p := range s.parked {
			if syncBusy && strings.HasPrefix(p.op, "send:") {
				continue
			}
			names = append(names, n)
		}
		sort.Strings(names)
		// canonical order: the thread that ran last first (continuing it is not a deviation)
		for i, n := range names {
			if n == s.last {
				copy(names[1:i+1], names[:i])
				names[0] = n
				break
			}
		}
		s.mu.Unlock()
		k := 0
		if len(names) > 1 && s.Choose != nil {
			k = s.Choose(len(names), names)
		}
		s.mu.Lock()
		p := s.parked[names[k]]
		delete(s.parked, names[k])
		s.last = names[k]
		s.Steps++
		if strings.HasPrefix(p.op, "send:") {
			s.Sends++
		}
		if len(s.Trace) < 400 {
			s.Trace = append(s.Trace, names[k]+":"+p.op)
		}
		s.mu.Unlock()
		close(p.grant)
		grants++
	}
}

// Alive lists the registered threads that have not returned yet.
func (s *Sched) Alive() []string {
	s.mu.Lock()
	defer s.mu.Unlock()
	var out []string
	for _, n := range s.names {
		out = append(out, n)
	}
	sort.Strings(out)
	return out
}
