package world

import (
	"context"
	"fmt"
	"runtime/debug"
	"strings"
	"sync"
	"time"

	"github.com/evstack/ev-node/types"
)

// LoopPanic records a panic of one of the node's ingress loops. The node runs these loops as bare goroutines, so in
// the real process such a panic ends the whole node; the guarded variant recovers it only to report it.
type LoopPanic struct {
	Loop  string // retrieve | p2p-headers | p2p-data | sync | includer
	Value string
	Where string // innermost frames of the repository's own code
}

func (p LoopPanic) String() string {
	return fmt.Sprintf("%s loop panicked: %s (%s)", p.Loop, p.Value, p.Where)
}

// GuardedFullL2 is a FullL2 whose loops are wrapped: a panic below a loop is recorded in Panics and the process is
// marked as dead (every other loop ends at its next call into a double), exactly what an unrecovered panic does.
type GuardedFullL2 struct {
	*FullL2
	mu     sync.Mutex
	panics []LoopPanic
}

// Panics returns the recorded loop panics (call after Settle / a Tick).
func (g *GuardedFullL2) Panics() []LoopPanic {
	g.mu.Lock()
	defer g.mu.Unlock()
	return append([]LoopPanic(nil), g.panics...)
}

func repoFrames(stack string) string {
	var out []string
	lines := strings.Split(stack, "\n")
	for i := 0; i+1 < len(lines); i++ {
		l := lines[i]
		if strings.HasPrefix(l, "github.com/evstack/ev-node/") && !strings.Contains(l, "verifshim") {
			fn := l
			if k := strings.LastIndexByte(fn, '('); k > 0 {
				fn = fn[:k]
			}
			fn = strings.TrimPrefix(fn, "github.com/evstack/ev-node/")
			out = append(out, fn)
			if len(out) == 3 {
				break
			}
		}
	}
	return strings.Join(out, " <- ")
}

// StartFullL2Guarded is StartFullL2 with guarded loops (canonical schedule). Must be called inside a bubble.
func StartFullL2Guarded(p Params, env *Env, image map[string][]byte, hs *P2PStore[*types.SignedHeader], ds *P2PStore[*types.Data], onWrite func(int, Write) bool) (*GuardedFullL2, error) {
	sched := NewSched(nil)
	p.BlockTime, p.DABlockTime = 1000*time.Hour, 1000*time.Hour
	if hs == nil {
		hs = &P2PStore[*types.SignedHeader]{}
	}
	if ds == nil {
		ds = &P2PStore[*types.Data]{}
	}
	hs.Gate, ds.Gate = sched.Gate, sched.Gate
	n, err := StartNode(p, env, image, NodeOpts{HStore: hs, DStore: ds, OnWrite: onWrite, Gate: sched.Gate})
	if err != nil {
		return nil, err
	}
	InstallDivert(sched, n, "sync")
	f := &FullL2{N: n, Env: env, P: p, ErrCh: make(chan error, 16), HStore: hs, DStore: ds, Sched: sched}
	g := &GuardedFullL2{FullL2: f}
	var ctx context.Context
	ctx, f.cancel = context.WithCancel(context.Background())
	guard := func(name string, loop func()) func() {
		return func() {
			defer func() {
				if e := recover(); e != nil {
					lp := LoopPanic{Loop: name, Value: fmt.Sprint(e), Where: repoFrames(string(debug.Stack()))}
					g.mu.Lock()
					g.panics = append(g.panics, lp)
					g.mu.Unlock()
					n.Fate.Kill() // the process is gone
				}
			}()
			loop()
		}
	}
	sched.Go("retrieve", guard("retrieve", func() { n.M.RetrieveLoop(ctx) }))
	sched.Go("p2p-headers", guard("p2p-headers", func() { n.M.HeaderStoreRetrieveLoop(ctx) }))
	sched.Go("p2p-data", guard("p2p-data", func() { n.M.DataStoreRetrieveLoop(ctx) }))
	sched.Go("sync", guard("sync", func() { n.M.SyncLoop(ctx, f.ErrCh) }))
	sched.Go("includer", guard("includer", func() { n.M.DAIncluderLoop(ctx, f.ErrCh) }))
	sched.Drain()
	return g, nil
}
