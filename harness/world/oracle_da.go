package world

import (
	"crypto/sha256"
	"encoding/binary"
	"fmt"
	"sync"

	"google.golang.org/protobuf/proto"

	"github.com/evstack/ev-node/types"
	pb "github.com/evstack/ev-node/types/pb/evnode/v1"
)

// BlobKind is what a DA blob decodes to (exactly as a syncing node decodes it).
type BlobKind struct {
	Header bool
	Height uint64
	ID     string // header hash, or data commitment
	SH     *types.SignedHeader
	SD     *types.SignedData
}

var blobMemo sync.Map // decoding is a pure function of the bytes

func ClassifyBlob(blob []byte) (BlobKind, bool) {
	k := sha256.Sum256(blob)
	if v, ok := blobMemo.Load(k); ok {
		it := v.(BlobKind)
		return it, it.Height != 0
	}
	it := BlobKind{}
	var hp pb.SignedHeader
	if err := proto.Unmarshal(blob, &hp); err == nil {
		sh := new(types.SignedHeader)
		if err := sh.FromProto(&hp); err == nil && sh.ValidateBasic() == nil {
			it = BlobKind{Header: true, Height: sh.Height(), ID: string(sh.Hash()), SH: sh}
		}
	}
	if it.Height == 0 {
		sd := new(types.SignedData)
		if err := sd.UnmarshalBinary(blob); err == nil && sd.Metadata != nil && len(sd.Txs) > 0 {
			it = BlobKind{Height: sd.Height(), ID: string(sd.Data.DACommitment()), SD: sd}
		}
	}
	blobMemo.Store(k, it)
	return it, it.Height != 0
}

func LE64(b []byte) uint64 {
	if len(b) != 8 {
		return 0
	}
	return binary.LittleEndian.Uint64(b)
}

// DATruth: at which DA heights each header hash / data commitment really is.
func DATruth(da *DA) (hdr, dat map[string][]uint64) {
	hdr, dat = map[string][]uint64{}, map[string][]uint64{}
	for _, pl := range da.AllBlobs() {
		if it, ok := ClassifyBlob(pl.Blob); ok {
			if it.Header {
				hdr[it.ID] = append(hdr[it.ID], pl.Height)
			} else {
				dat[it.ID] = append(dat[it.ID], pl.Height)
			}
		}
	}
	return
}

func containsU64(xs []uint64, x uint64) bool {
	for _, y := range xs {
		if y == x {
			return true
		}
	}
	return false
}

// CheckDAIncluded verifies the C07 soundness clauses for one node: the reported DA-included height is not above the
// chain height, every block up to it has its header and non-empty data on the DA double, and the recorded DA heights
// name heights at which the blobs really are.
func CheckDAIncluded(n *Node, initial uint64, reported uint64) *Fail {
	st := ImageStore(n.KV.Image())
	h, blocks, f := ReadChain(st, initial)
	if f != nil {
		return f
	}
	if reported > h {
		return failf("not-above-chain-height", "DA-included height %d exceeds the chain height %d", reported, h)
	}
	hdr, dat := DATruth(n.Env.DA)
	for x := initial; x <= reported; x++ {
		b := blocks[x-initial]
		hh := string(b.H.Hash())
		if len(hdr[hh]) == 0 {
			return failf("da-included-sound", "DA-included height is %d but the header of block %d is not on the DA layer", reported, x)
		}
		dc := string(b.D.DACommitment())
		if len(b.D.Txs) > 0 && len(dat[dc]) == 0 {
			return failf("da-included-sound", "DA-included height is %d but the data of block %d is not on the DA layer", reported, x)
		}
		if v, ok := n.KV.RawGet(fmt.Sprintf("/m/rhb/%d/h", x)); ok {
			if !containsU64(hdr[hh], LE64(v)) {
				return failf("recorded-da-heights", "block %d: recorded header DA height %d, the header blob is at %v", x, LE64(v), hdr[hh])
			}
		} else {
			return failf("recorded-da-heights", "block %d is DA-included but no header DA height is recorded", x)
		}
		if v, ok := n.KV.RawGet(fmt.Sprintf("/m/rhb/%d/d", x)); ok {
			if len(b.D.Txs) > 0 && !containsU64(dat[dc], LE64(v)) {
				return failf("recorded-da-heights", "block %d: recorded data DA height %d, the data blob is at %v", x, LE64(v), dat[dc])
			}
		} else {
			return failf("recorded-da-heights", "block %d is DA-included but no data DA height is recorded", x)
		}
	}
	return nil
}

// CheckFinalizeLog: the execution layer is asked to finalize 1,2,3,... in order, before the height is reported.
func CheckFinalizeLog(exec *Exec, initial, reported uint64) *Fail {
	next := initial
	for _, c := range exec.Log() {
		if c.Kind != "final" {
			continue
		}
		if c.Height != next {
			return failf("finalize-in-order", "execution layer was asked to finalize height %d, expected %d", c.Height, next)
		}
		if !c.Err {
			next++
		}
	}
	if reported > next-1 {
		return failf("finalize-before-report", "DA-included height %d is reported but the execution layer was only asked to finalize up to %d", reported, next-1)
	}
	return nil
}

// CheckDAContents: every blob on the DA double decodes to exactly the committed item of its height (C06).
func CheckDAContents(n *Node, initial uint64) *Fail {
	h, blocks, f := ReadChain(ImageStore(n.KV.Image()), initial)
	if f != nil {
		return f
	}
	for _, pl := range n.Env.DA.AllBlobs() {
		it, ok := ClassifyBlob(pl.Blob)
		if !ok {
			return failf("blob-decodes", "blob at DA height %d decodes neither as a signed header nor as signed data", pl.Height)
		}
		if it.Height < initial || it.Height > h {
			return failf("blob-is-committed", "DA holds an item for height %d, the chain is %d..%d", it.Height, initial, h)
		}
		b := blocks[it.Height-initial]
		if it.Header {
			if string(b.H.Hash()) != it.ID {
				return failf("blob-is-committed", "header blob for height %d differs from the committed header", it.Height)
			}
		} else if !TxsEqual(txsOf(&it.SD.Data), txsOf(b.D)) {
			return failf("blob-is-committed", "data blob for height %d differs from the committed transactions", it.Height)
		}
	}
	return nil
}
