package world

import (
	"context"
	"fmt"
	"os"
	"path/filepath"
	"time"

	logging "github.com/ipfs/go-log/v2"

	"github.com/evstack/ev-node/block"
	"github.com/evstack/ev-node/pkg/config"
	"github.com/evstack/ev-node/pkg/genesis"
	"github.com/evstack/ev-node/pkg/store"
	"github.com/evstack/ev-node/types"
)

func init() {
	// the loops log ERROR lines to stderr; silence everything
	logging.SetAllLoggers(logging.LevelFatal)
	_ = logging.SetLogLevel("*", "fatal")
}

var Logger = logging.Logger("verif")

// GenesisTime is the fixed genesis time of every world.
var GenesisTime = time.Unix(1_700_000_000, 0).UTC()

// Params configures a node world.
type Params struct {
	ChainID       string
	InitialHeight uint64
	MaxPending    uint64
	Lazy          bool
	BlockTime     time.Duration
	LazyInterval  time.Duration
	DABlockTime   time.Duration
	DAStartHeight uint64
	MempoolTTL    uint64
	RootDir       string // where the cache files live ("" = a directory that does not exist)
	GenesisTime   time.Time
	SignerSeed    string
	// CustomPayload: the node's manager is built with a non-default ManagerOptions.SignaturePayloadProvider
	// (CustomPayloadProvider, see custompayload.go); false = block.DefaultManagerOptions().
	CustomPayload bool
}

func (p Params) withDefaults() Params {
	if p.ChainID == "" {
		p.ChainID = "verif-chain"
	}
	if p.InitialHeight == 0 {
		p.InitialHeight = 1
	}
	if p.BlockTime == 0 {
		p.BlockTime = time.Second
	}
	if p.DABlockTime == 0 {
		p.DABlockTime = time.Second
	}
	if p.LazyInterval == 0 {
		p.LazyInterval = 3 * time.Second
	}
	if p.GenesisTime.IsZero() {
		p.GenesisTime = GenesisTime
	}
	if p.SignerSeed == "" {
		p.SignerSeed = "proposer"
	}
	if p.RootDir == "" {
		p.RootDir = filepath.Join(os.TempDir(), "verif-no-such-dir")
	}
	return p
}

// Env is what survives a node crash: the DA layer, the execution layer, the sequencing layer (when a double), the
// P2P network contents, and the persisted key/value image.
type Env struct {
	DA   *DA
	Exec *Exec
	Seq  *Seq
}

func NewEnv() *Env { return &Env{DA: NewDA(), Exec: NewExec(), Seq: &Seq{}} }

// Node is one process of an aggregator or full node: a real block.Manager over the doubles.
type Node struct {
	P       Params
	Env     *Env
	KV      *KV
	Store   store.Store
	M       *block.Manager
	Fate    *Fate
	Signer  *FixedSigner
	Genesis genesis.Genesis
	HB      *Broadcaster[*types.SignedHeader]
	DB      *Broadcaster[*types.Data]
	HStore  *P2PStore[*types.SignedHeader]
	DStore  *P2PStore[*types.Data]
	Gate    func(op string)
	Cfg     config.Config
	Agg     bool
	// ExecImpl, if set, is the execution layer this process talks to instead of the Exec double of the Env
	// (a coreexecutor.Executor; see NodeOpts.ExecImpl).
	ExecImpl any
}

// NodeOpts lets a world replace individual parts.
type NodeOpts struct {
	Aggregator bool
	Gate       func(op string)
	SeqImpl    func(n *Node) any // coresequencer.Sequencer; nil = the Seq double of the Env
	HStore     *P2PStore[*types.SignedHeader]
	DStore     *P2PStore[*types.Data]
	// OnWrite is installed on the KV before the manager is constructed (crashes during start-up).
	OnWrite func(idx int, w Write) bool
	// ExecImpl, if set, supplies the execution layer (a coreexecutor.Executor) for this process; nil = the Exec
	// double of the Env. It is called after n.KV / n.Fate exist (see RealExec in realexec.go).
	ExecImpl func(n *Node) any
}

// StartNode constructs a node process on a key/value image (nil = empty).
func StartNode(p Params, env *Env, image map[string][]byte, o NodeOpts) (*Node, error) {
	p = p.withDefaults()
	n := &Node{P: p, Env: env, Agg: o.Aggregator, Gate: o.Gate}
	n.KV = NewKV(image)
	n.KV.Gate = o.Gate
	n.KV.OnWrite = o.OnWrite
	n.Fate = n.KV.Fate
	n.Store = store.New(n.KV)
	n.Signer = NewFixedSigner(p.SignerSeed)
	n.Genesis = genesis.NewGenesis(p.ChainID, p.InitialHeight, p.GenesisTime, n.Signer.Addr())
	n.HB = &Broadcaster[*types.SignedHeader]{Fate: n.Fate}
	n.DB = &Broadcaster[*types.Data]{Fate: n.Fate}
	n.HStore, n.DStore = o.HStore, o.DStore
	if n.HStore == nil {
		n.HStore = &P2PStore[*types.SignedHeader]{}
	}
	if n.DStore == nil {
		n.DStore = &P2PStore[*types.Data]{}
	}
	cfg := config.DefaultConfig
	cfg.RootDir = p.RootDir
	cfg.Node.Aggregator = o.Aggregator
	cfg.Node.BlockTime.Duration = p.BlockTime
	cfg.Node.LazyMode = p.Lazy
	cfg.Node.LazyBlockInterval.Duration = p.LazyInterval
	cfg.Node.MaxPendingHeadersAndData = p.MaxPending
	cfg.DA.BlockTime.Duration = p.DABlockTime
	cfg.DA.StartHeight = p.DAStartHeight
	cfg.DA.MempoolTTL = p.MempoolTTL
	n.Cfg = cfg
	var sg any
	if o.Aggregator {
		sg = n.Signer
	}
	var seq any = &SeqClient{Seq: env.Seq, Fate: n.Fate, Gate: o.Gate}
	if o.SeqImpl != nil {
		seq = o.SeqImpl(n)
	}
	if o.ExecImpl != nil {
		n.ExecImpl = o.ExecImpl(n)
	}
	m, err := newManager(n, sg, seq)
	if err != nil {
		return n, err
	}
	n.M = m
	return n, nil
}

// Go runs f on its own goroutine and waits until it returns or the process crashes (Goexit).
// It reports whether f ran to completion.
func Go(f func()) (completed bool) {
	done := make(chan bool, 1)
	go func() {
		ok := false
		defer func() { done <- ok }()
		f()
		ok = true
	}()
	return <-done
}

// Produce runs one production step (what the aggregation loop calls).
func (n *Node) Produce(ctx context.Context) (err error, completed bool) {
	completed = Go(func() { err = n.M.VerifPublishBlock(ctx) })
	return
}

// Height reads the chain height straight from the image (oracle side, ungated).
func (n *Node) Height() uint64 {
	v, ok := n.KV.RawGet("/t")
	if !ok || len(v) != 8 {
		return 0
	}
	var h uint64
	for i := 7; i >= 0; i-- {
		h = h<<8 | uint64(v[i])
	}
	return h
}

// OracleStore is an ungated, fate-free view of the current image for oracles.
func (n *Node) OracleStore() store.Store { return store.New(NewKV(n.KV.Image())) }

func ImageStore(img map[string][]byte) store.Store { return store.New(NewKV(img)) }

func (n *Node) String() string { return fmt.Sprintf("node(agg=%v,h=%d)", n.Agg, n.Height()) }

// ErrCrashedDuringStart is returned when an injected crash fired while the manager was being constructed.
var ErrCrashedDuringStart = fmt.Errorf("process crashed during start-up")
