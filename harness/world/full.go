package world

import (
	"context"
	"fmt"
	"strings"
	"sync"
	"time"

	"google.golang.org/protobuf/proto"

	"github.com/evstack/ev-node/block"
	coreseq "github.com/evstack/ev-node/core/sequencer"
	"github.com/evstack/ev-node/types"
)

// ProducerChain is a chain committed by a real aggregator node run (serialized, so that every consumer gets
// fresh copies of the headers and data).
type ProducerChain struct {
	Pattern  string // one letter per block above the genesis block: e = empty, a/b/c = transaction sets
	Initial  uint64
	Headers  [][]byte // SignedHeader.MarshalBinary per height, index 0 = initial height
	Data     [][]byte // Data.MarshalBinary (with metadata) per height
	HdrBlobs [][]byte // what the header submission loop publishes (proto of SignedHeader)
	DatBlobs [][]byte // what the data submission loop publishes (SignedData), nil for empty blocks
	Hashes   [][]byte
	AppHash  [][]byte // state root AFTER each block
	Txs      [][][]byte
	Params   Params
}

var (
	chainMu    sync.Mutex
	chainCache = map[string]*ProducerChain{}
)

func txSet(letter byte) [][]byte {
	switch letter {
	case 'a':
		return [][]byte{[]byte("tx-a1"), []byte("tx-a2")}
	case 'b':
		return [][]byte{[]byte("tx-b1")}
	case 'c':
		return [][]byte{[]byte("tx-c1"), []byte("tx-c2"), []byte("tx-c3")}
	}
	return nil
}

// BuildChain runs a real aggregator for len(pattern)+1 production steps (the first step commits the genesis block).
func BuildChain(pattern string, initial uint64) (*ProducerChain, error) {
	return buildChain(pattern, initial, false)
}

// buildChain: customPayload = the producer (and every node that is to follow it) is configured with
// CustomPayloadProvider (custompayload.go); the chain then carries Params.CustomPayload.
func buildChain(pattern string, initial uint64, customPayload bool) (*ProducerChain, error) {
	key := fmt.Sprintf("%s/%d", pattern, initial)
	if customPayload {
		key += "/custom-payload"
	}
	chainMu.Lock()
	defer chainMu.Unlock()
	if pc, ok := chainCache[key]; ok {
		return pc, nil
	}
	p := Params{InitialHeight: initial, CustomPayload: customPayload}.withDefaults()
	env := NewEnv()
	clock := GenesisTime
	i := 0
	env.Seq.Next = func(req coreseq.GetNextBatchRequest) SeqAnswer {
		clock = clock.Add(time.Second)
		txs := txSet(pattern[i])
		i++
		return SeqAnswer{Kind: "batch", Txs: txs, Time: clock}
	}
	n, err := StartNode(p, env, nil, NodeOpts{Aggregator: true})
	if err != nil {
		return nil, err
	}
	ctx := context.Background()
	for s := 0; s <= len(pattern); s++ {
		if err, _ := n.Produce(ctx); err != nil {
			return nil, fmt.Errorf("producer step %d: %w", s, err)
		}
	}
	_, blocks, f := CheckChain(n.OracleStore(), ChainSpec{ChainID: p.ChainID, Initial: initial, Proposer: n.Signer, Payload: p.PayloadProvider()})
	if f != nil {
		return nil, fmt.Errorf("producer chain invalid: %s", f.Msg)
	}
	if len(blocks) != len(pattern)+1 {
		return nil, fmt.Errorf("producer committed %d blocks, want %d", len(blocks), len(pattern)+1)
	}
	pc := &ProducerChain{Pattern: pattern, Initial: initial, Params: p}
	roots := RootsOf(p.ChainID, blocks)
	// DA blobs exactly as the submission code builds them
	hs, err := n.M.VerifPendingHeaders(ctx)
	if err != nil {
		return nil, err
	}
	sds, err := n.M.VerifCreateSignedData(ctx)
	if err != nil {
		return nil, err
	}
	sdBy := map[uint64][]byte{}
	for _, sd := range sds {
		bz, err := sd.MarshalBinary()
		if err != nil {
			return nil, err
		}
		sdBy[sd.Height()] = bz
	}
	for k, b := range blocks {
		hb, err := b.H.MarshalBinary()
		if err != nil {
			return nil, err
		}
		db, err := b.D.MarshalBinary()
		if err != nil {
			return nil, err
		}
		pc.Headers = append(pc.Headers, hb)
		pc.Data = append(pc.Data, db)
		pc.Hashes = append(pc.Hashes, b.H.Hash())
		pc.AppHash = append(pc.AppHash, roots[k])
		pc.Txs = append(pc.Txs, txsOf(b.D))
		hp, err := hs[k].ToProto()
		if err != nil {
			return nil, err
		}
		blob, err := proto.Marshal(hp)
		if err != nil {
			return nil, err
		}
		pc.HdrBlobs = append(pc.HdrBlobs, blob)
		pc.DatBlobs = append(pc.DatBlobs, sdBy[b.H.Height()])
	}
	chainCache[key] = pc
	return pc, nil
}

func (pc *ProducerChain) Len() int { return len(pc.Headers) }

// Header returns a fresh copy of the header at index i.
func (pc *ProducerChain) Header(i int) *types.SignedHeader {
	h := new(types.SignedHeader)
	if err := h.UnmarshalBinary(pc.Headers[i]); err != nil {
		panic(err)
	}
	return h
}

func (pc *ProducerChain) DataAt(i int) *types.Data {
	d := new(types.Data)
	if err := d.UnmarshalBinary(pc.Data[i]); err != nil {
		panic(err)
	}
	return d
}

// Patterns enumerates all patterns of length n over the alphabet.
func Patterns(alphabet string, n int) []string {
	out := []string{""}
	for i := 0; i < n; i++ {
		var next []string
		for _, p := range out {
			for _, l := range alphabet {
				next = append(next, p+string(l))
			}
		}
		out = next
	}
	return out
}

// Event is one sync input.
type Event struct {
	Header bool
	Idx    int // index into the producer chain
}

func (e Event) String() string {
	if e.Header {
		return fmt.Sprintf("H%d", e.Idx)
	}
	return fmt.Sprintf("D%d", e.Idx)
}

// Events lists the genuine events of a chain: one header per block and one data per non-empty block.
func (pc *ProducerChain) Events() []Event {
	var evs []Event
	for i := range pc.Headers {
		evs = append(evs, Event{true, i})
		if len(pc.Txs[i]) > 0 {
			evs = append(evs, Event{false, i})
		}
	}
	return evs
}

// Deliver pushes one event into the real input channel of the manager's SyncLoop.
func Deliver(m *block.Manager, pc *ProducerChain, e Event, daHeight uint64) {
	if e.Header {
		h := pc.Header(e.Idx)
		if pc.Params.CustomPayload {
			// what both ingress paths do before they push a header event (block/retriever.go, block/store.go)
			h.SetCustomVerifier(CustomPayloadProvider)
		}
		m.VerifHeaderInCh() <- block.NewHeaderEvent{Header: h, DAHeight: daHeight}
	} else {
		m.VerifDataInCh() <- block.NewDataEvent{Data: pc.DataAt(e.Idx), DAHeight: daHeight}
	}
}

// CheckFollows verifies the C02 clauses for a full node against the producer chain; delivered tells which
// events have been delivered so far (complete = expected height).
func CheckFollows(n *Node, pc *ProducerChain, deliveredH, deliveredD map[int]bool, prevHeight uint64) (uint64, *Fail) {
	st := n.OracleStore()
	ctx := context.Background()
	height, err := st.Height(ctx)
	if err != nil {
		return 0, failf("store-readable", "Height(): %v", err)
	}
	if height < prevHeight {
		return height, failf("height-monotone", "chain height went from %d to %d", prevHeight, height)
	}
	// expected height: all parts of all blocks up to it were delivered
	want := pc.Initial - 1
	for i := 0; i < pc.Len(); i++ {
		if !deliveredH[i] || (len(pc.Txs[i]) > 0 && !deliveredD[i]) {
			break
		}
		want = pc.Initial + uint64(i)
	}
	for h := pc.Initial; h <= height; h++ {
		i := int(h - pc.Initial)
		if i >= pc.Len() {
			return height, failf("follows-producer", "full node is at height %d, producer chain ends at %d", height, pc.Initial+uint64(pc.Len())-1)
		}
		hd, d, err := st.GetBlockData(ctx, h)
		if err != nil {
			return height, failf("block-retrievable", "chain height is %d but block %d is not retrievable: %v", height, h, err)
		}
		if string(hd.Hash()) != string(pc.Hashes[i]) {
			return height, failf("follows-producer", "block %d: header hash %X differs from the producer's %X", h, []byte(hd.Hash()), pc.Hashes[i])
		}
		if !TxsEqual(txsOf(d), pc.Txs[i]) {
			return height, failf("follows-producer", "block %d: transactions %q differ from the producer's %q", h, txsOf(d), pc.Txs[i])
		}
	}
	if height > want {
		return height, failf("applies-only-complete-blocks", "full node is at height %d although both parts of all blocks are delivered only up to %d", height, want)
	}
	if height < want {
		return height, failf("converges", "both parts of all blocks up to %d were delivered but the full node is at height %d", want, height)
	}
	if height >= pc.Initial {
		s, err := st.GetState(ctx)
		if err != nil {
			return height, failf("state-agrees", "GetState: %v", err)
		}
		if s.LastBlockHeight != height || string(s.AppHash) != string(pc.AppHash[height-pc.Initial]) {
			return height, failf("state-agrees", "recorded state (height %d, root %X) is not the producer's state at height %d (root %X)", s.LastBlockHeight, s.AppHash, height, pc.AppHash[height-pc.Initial])
		}
	}
	// execution calls: successful executions are for heights initial, initial+1, ... in order with the producer's txs
	next := pc.Initial
	for _, ec := range n.Env.Exec.Log() {
		if ec.Kind != "exec" || ec.Err {
			continue
		}
		if ec.Height == next {
			i := int(ec.Height - pc.Initial)
			if i >= pc.Len() || !TxsEqual(ec.Txs, pc.Txs[i]) {
				return height, failf("execution-order", "execution layer executed height %d with transactions %q, producer has %q", ec.Height, ec.Txs, pc.Txs[min(i, pc.Len()-1)])
			}
			next++
		} else if ec.Height < next {
			// re-execution of an already applied height (after a crash) must carry the same transactions
			i := int(ec.Height - pc.Initial)
			if !TxsEqual(ec.Txs, pc.Txs[i]) {
				return height, failf("execution-order", "height %d re-executed with different transactions", ec.Height)
			}
		} else {
			return height, failf("execution-order", "execution layer was asked to execute height %d before height %d (skipped)", ec.Height, next)
		}
	}
	return height, nil
}

// HasRepeatedNonEmpty tells whether two blocks of the pattern carry the same non-empty transaction list.
func HasRepeatedNonEmpty(pattern string) bool {
	for _, l := range "abc" {
		if strings.Count(pattern, string(l)) > 1 {
			return true
		}
	}
	return false
}
