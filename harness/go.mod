module verif/harness

go 1.26.8

require (
	github.com/anishathalye/porcupine v1.3.0
	github.com/celestiaorg/go-header v0.6.6
	github.com/evstack/ev-node v0.0.0
	github.com/evstack/ev-node/apps/testapp v0.0.0
	github.com/evstack/ev-node/core v0.0.0
	github.com/evstack/ev-node/da v0.0.0
	github.com/evstack/ev-node/sequencers/based v0.0.0
	github.com/evstack/ev-node/sequencers/single v0.0.0
	github.com/filecoin-project/go-jsonrpc v0.7.1
	github.com/ipfs/go-datastore v0.8.2
	github.com/ipfs/go-log/v2 v2.6.0
	github.com/libp2p/go-libp2p v0.41.1
	github.com/spf13/cobra v1.9.1
	github.com/spf13/pflag v1.0.6
	github.com/spf13/viper v1.20.1
	golang.org/x/crypto v0.40.0
	google.golang.org/protobuf v1.36.6
)

require (
	github.com/beorn7/perks v1.0.1 // indirect
	github.com/celestiaorg/go-square/v2 v2.2.0 // indirect
	github.com/cespare/xxhash/v2 v2.3.0 // indirect
	github.com/davecgh/go-spew v1.1.2-0.20180830191138-d8f796af33cc // indirect
	github.com/decred/dcrd/dcrec/secp256k1/v4 v4.4.0 // indirect
	github.com/dgraph-io/badger/v4 v4.5.1 // indirect
	github.com/dgraph-io/ristretto/v2 v2.1.0 // indirect
	github.com/dustin/go-humanize v1.0.1 // indirect
	github.com/fsnotify/fsnotify v1.8.0 // indirect
	github.com/go-kit/kit v0.13.0 // indirect
	github.com/go-viper/mapstructure/v2 v2.3.0 // indirect
	github.com/goccy/go-yaml v1.18.0 // indirect
	github.com/gogo/protobuf v1.3.2 // indirect
	github.com/golang/groupcache v0.0.0-20241129210726-2c02b8208cf8 // indirect
	github.com/google/flatbuffers v24.12.23+incompatible // indirect
	github.com/google/uuid v1.6.0 // indirect
	github.com/gorilla/websocket v1.5.3 // indirect
	github.com/hashicorp/golang-lru/v2 v2.0.7 // indirect
	github.com/ipfs/go-cid v0.5.0 // indirect
	github.com/ipfs/go-ds-badger4 v0.1.8 // indirect
	github.com/klauspost/compress v1.18.0 // indirect
	github.com/klauspost/cpuid/v2 v2.2.10 // indirect
	github.com/libp2p/go-buffer-pool v0.1.0 // indirect
	github.com/libp2p/go-libp2p-pubsub v0.14.1 // indirect
	github.com/libp2p/go-msgio v0.3.0 // indirect
	github.com/mattn/go-isatty v0.0.20 // indirect
	github.com/mitchellh/mapstructure v1.5.0 // indirect
	github.com/mr-tron/base58 v1.2.0 // indirect
	github.com/multiformats/go-base32 v0.1.0 // indirect
	github.com/multiformats/go-base36 v0.2.0 // indirect
	github.com/multiformats/go-multiaddr v0.16.0 // indirect
	github.com/multiformats/go-multiaddr-fmt v0.1.0 // indirect
	github.com/multiformats/go-multibase v0.2.0 // indirect
	github.com/multiformats/go-multicodec v0.9.0 // indirect
	github.com/multiformats/go-multihash v0.2.3 // indirect
	github.com/multiformats/go-multistream v0.6.0 // indirect
	github.com/multiformats/go-varint v0.0.7 // indirect
	github.com/munnerz/goautoneg v0.0.0-20191010083416-a7dc8b61c822 // indirect
	github.com/pelletier/go-toml/v2 v2.2.3 // indirect
	github.com/pkg/errors v0.9.1 // indirect
	github.com/pmezard/go-difflib v1.0.1-0.20181226105442-5d4384ee4fb2 // indirect
	github.com/prometheus/client_golang v1.22.0 // indirect
	github.com/prometheus/client_model v0.6.2 // indirect
	github.com/prometheus/common v0.63.0 // indirect
	github.com/prometheus/procfs v0.16.1 // indirect
	github.com/sagikazarmark/locafero v0.7.0 // indirect
	github.com/sourcegraph/conc v0.3.0 // indirect
	github.com/spaolacci/murmur3 v1.1.0 // indirect
	github.com/spf13/afero v1.12.0 // indirect
	github.com/spf13/cast v1.7.1 // indirect
	github.com/stretchr/objx v0.5.2 // indirect
	github.com/stretchr/testify v1.10.0 // indirect
	github.com/subosito/gotenv v1.6.0 // indirect
	go.opencensus.io v0.24.0 // indirect
	go.uber.org/multierr v1.11.0 // indirect
	go.uber.org/zap v1.27.0 // indirect
	golang.org/x/exp v0.0.0-20250506013437-ce4c2cf36ca6 // indirect
	golang.org/x/net v0.42.0 // indirect
	golang.org/x/sync v0.16.0 // indirect
	golang.org/x/sys v0.34.0 // indirect
	golang.org/x/text v0.27.0 // indirect
	golang.org/x/xerrors v0.0.0-20240903120638-7835f813f4da // indirect
	gopkg.in/yaml.v3 v3.0.1 // indirect
	lukechampine.com/blake3 v1.4.1 // indirect
)

replace (
	github.com/evstack/ev-node => /repo
	github.com/evstack/ev-node/apps/testapp => /repo/apps/testapp
	github.com/evstack/ev-node/core => /repo/core
	github.com/evstack/ev-node/da => /repo/da
	github.com/evstack/ev-node/sequencers/based => /repo/sequencers/based
	github.com/evstack/ev-node/sequencers/single => /repo/sequencers/single
)
