#!/usr/bin/env python3
"""Generate a `go build -overlay` file from /repo's current working tree.

  mkoverlay.py <outdir> [--shim pkgdir ...]

* every file under /verif/hooks/<rel>/x.go is added to /repo/<rel>/x.go (all are `//go:build verif`);
* every file under /verif/shim/<rel>/ becomes /repo/verifshim/<rel>/ (virtual packages inside the repo module);
* for each --shim <pkgdir> (relative to /repo) every non-test .go file of that package is copied to <outdir> with
  `"sync"` / `"sync/atomic"` imports redirected to the shim (and gates inserted before sends into the sync-loop
  input channels); the copy is regenerated from the working tree on every run, so edits to /repo are what is built.
"""
import json, os, re, sys

REPO = os.environ.get("VERIF_REPO", "/repo")
ROOT = os.path.dirname(os.path.abspath(__file__))
MOD = "github.com/evstack/ev-node"

def main():
    out = os.path.abspath(sys.argv[1])
    shims = []
    args = sys.argv[2:]
    while args:
        a = args.pop(0)
        if a == "--shim":
            shims.append(args.pop(0))
    os.makedirs(out, exist_ok=True)
    rep = {}
    hooks = os.path.join(ROOT, "hooks")
    for d, _, fs in os.walk(hooks):
        for f in fs:
            if f.endswith(".go"):
                rel = os.path.relpath(os.path.join(d, f), hooks)
                rep[os.path.join(REPO, rel)] = os.path.join(d, f)
    shimroot = os.path.join(ROOT, "shim")
    for d, _, fs in os.walk(shimroot):
        for f in fs:
            if f.endswith(".go"):
                rel = os.path.relpath(os.path.join(d, f), shimroot)
                rep[os.path.join(REPO, "verifshim", rel)] = os.path.join(d, f)
    for spec in shims:
        pkg, _, what = spec.partition(":")
        what = set(what.split(",")) if what else {"sync", "atomic"}
        src = os.path.join(REPO, pkg)
        dst = os.path.join(out, "shimmed", pkg)
        os.makedirs(dst, exist_ok=True)
        for f in sorted(os.listdir(src)):
            if not f.endswith(".go") or f.endswith("_test.go"):
                continue
            s = open(os.path.join(src, f)).read()
            s2 = rewrite(s, what)
            if s2 != s:
                p = os.path.join(dst, f)
                open(p, "w").write(s2)
                rep[os.path.join(src, f)] = p
    with open(os.path.join(out, "overlay.json"), "w") as fh:
        json.dump({"Replace": rep}, fh, indent=1)

def sendgate(s):
    """Wrap every send into the sync loop's input channels: `if !m.verifDivertHeader(ev) { <original send> }`.
    Handles a plain send statement and a send that is a case of a select (then the whole select is wrapped)."""
    lines = s.split("\n")
    out = []
    i = 0
    fn = {"headerInCh": "verifDivertHeader", "dataInCh": "verifDivertData"}
    while i < len(lines):
        ln = lines[i]
        m = re.match(r'^(\s*)m\.(headerInCh|dataInCh) <- (.*)$', ln)
        if m:
            out.append('%sif !m.%s(%s) {' % (m.group(1), fn[m.group(2)], m.group(3)))
            out.append(ln)
            out.append('%s}' % m.group(1))
            i += 1
            continue
        ms = re.match(r'^(\s*)select \{\s*$', ln)
        if ms:
            ind = ms.group(1)
            # find the end of this select and whether it has a send case into one of the channels
            k = i + 1
            expr = None
            while k < len(lines) and lines[k] != ind + "}":
                mc = re.match(r'^\s*case m\.(headerInCh|dataInCh) <- (.*):\s*$', lines[k])
                if mc:
                    expr = (mc.group(1), mc.group(2))
                k += 1
            if expr and k < len(lines):
                out.append('%sif !m.%s(%s) {' % (ind, fn[expr[0]], expr[1]))
                out.extend(lines[i:k + 1])
                out.append('%s}' % ind)
                i = k + 1
                continue
        out.append(ln)
        i += 1
    return "\n".join(out)

def rewrite(s, what):
    if "sync" in what:
        s = re.sub(r'(?m)^(\s*)"sync"$', r'\1sync "%s/verifshim/vsync"' % MOD, s)
    if "atomic" in what:
        s = re.sub(r'(?m)^(\s*)"sync/atomic"$', r'\1atomic "%s/verifshim/vatomic"' % MOD, s)
    if "sendgate" in what:
        s = sendgate(s)
    if "os" in what:
        s = re.sub(r'(?m)^(\s*)"os"$', r'\1os "%s/verifshim/vos"' % MOD, s)
    return s

main()
