#!/bin/bash
# Run once after a fresh restore, offline: assemble go.sum from the repository's own go.sum files and warm the build cache.
set -e
ROOT="$(cd "$(dirname "$0")" && pwd)"
export GOFLAGS=-mod=mod GOPROXY=off GOSUMDB=off
export GOCACHE="$ROOT/.cache/go-build"
mkdir -p "$GOCACHE" "$ROOT/evidence" "$ROOT/build"
cd "$ROOT/harness"
cat /repo/go.sum /repo/core/go.sum /repo/da/go.sum /repo/sequencers/single/go.sum /repo/sequencers/based/go.sum /repo/apps/testapp/go.sum go.sum 2>/dev/null | sort -u > go.sum.new && mv go.sum.new go.sum
python3 "$ROOT/mkoverlay.py" "$ROOT/build/setup"
# warm the cache: compile every property package once (no tests run)
go test -vet=off -tags verif -overlay "$ROOT/build/setup/overlay.json" -count=1 -run '^$' ./... > "$ROOT/build/setup/build.log" 2>&1 || { cat "$ROOT/build/setup/build.log"; exit 1; }
# the free-running -race supplements (props/*/race) are built with -race: warm that part of the cache too
go test -race -vet=off -tags verif -overlay "$ROOT/build/setup/overlay.json" -count=1 -run '^$' ./props/c10/race ./props/c12/race ./props/c13/race ./props/c16/race >> "$ROOT/build/setup/build.log" 2>&1 || { cat "$ROOT/build/setup/build.log"; exit 1; }
echo "setup ok"
