//go:build verif

package jsonrpc

import "net"

// VerifListenAddr exposes the address the started server is listening on (the harness starts it on port 0).
// It only exposes; nil before Start / after Stop.
func (s *Server) VerifListenAddr() net.Addr {
	if s.listener == nil {
		return nil
	}
	return s.listener.Addr()
}
