//go:build verif

package jsonrpc

import "net/http"

// VerifHandler exposes the HTTP handler the server serves (set in NewServer; Start is not needed for it).
// The concurrent part of C16 calls it from an in-memory http.RoundTripper. It only exposes.
func (s *Server) VerifHandler() http.Handler { return s.srv.Handler }
