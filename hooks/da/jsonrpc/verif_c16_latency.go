//go:build verif

package jsonrpc

import "time"

// VerifHTTPTimeouts exposes the timeouts NewServer configured on the http.Server (zero = not set). The latency part
// of C16 puts a backing-DA latency just above each of them. It only exposes.
func (s *Server) VerifHTTPTimeouts() map[string]time.Duration {
	return map[string]time.Duration{
		"ReadTimeout":       s.srv.ReadTimeout,
		"ReadHeaderTimeout": s.srv.ReadHeaderTimeout,
		"WriteTimeout":      s.srv.WriteTimeout,
		"IdleTimeout":       s.srv.IdleTimeout,
	}
}
