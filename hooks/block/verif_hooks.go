//go:build verif

package block

import (
	"context"

	"github.com/evstack/ev-node/pkg/cache"
	"github.com/evstack/ev-node/types"
)

// Accessors for the verification harness (/verif). They only expose; no loop body is duplicated here.

// VerifPublishBlock runs one production step (the function the aggregation loops call).
func (m *Manager) VerifPublishBlock(ctx context.Context) error { return m.publishBlock(ctx) }

// VerifSetPublishBlock replaces the production function (the seam the package's own tests use).
func (m *Manager) VerifSetPublishBlock(f func(ctx context.Context) error) { m.publishBlock = f }

func (m *Manager) VerifHeaderInCh() chan NewHeaderEvent { return m.headerInCh }
func (m *Manager) VerifDataInCh() chan NewDataEvent     { return m.dataInCh }
func (m *Manager) VerifRetrieveCh() chan struct{}       { return m.retrieveCh }
func (m *Manager) VerifHeaderStoreCh() chan struct{}    { return m.headerStoreCh }
func (m *Manager) VerifDataStoreCh() chan struct{}      { return m.dataStoreCh }
func (m *Manager) VerifDAIncluderCh() chan struct{}     { return m.daIncluderCh }
func (m *Manager) VerifTxNotifyCh() chan struct{}       { return m.txNotifyCh }

func (m *Manager) VerifDAHeight() uint64               { return m.daHeight.Load() }
func (m *Manager) VerifLastSubmittedHeader() uint64    { return m.pendingHeaders.getLastSubmittedHeaderHeight() }
func (m *Manager) VerifLastSubmittedData() uint64      { return m.pendingData.getLastSubmittedDataHeight() }
func (m *Manager) VerifNumPendingHeaders() uint64      { return m.pendingHeaders.numPendingHeaders() }
func (m *Manager) VerifNumPendingData() uint64         { return m.pendingData.numPendingData() }
func (m *Manager) VerifHeaderCache() *cache.Cache[types.SignedHeader] { return m.headerCache }
func (m *Manager) VerifDataCache() *cache.Cache[types.Data]           { return m.dataCache }

// VerifSubmitHeadersOnce / VerifSubmitDataOnce run the body of one submission-loop iteration by calling the same
// functions the loops call (the ticker-driven loops themselves are run unmodified elsewhere).
func (m *Manager) VerifPendingHeaders(ctx context.Context) ([]*types.SignedHeader, error) {
	return m.pendingHeaders.getPendingHeaders(ctx)
}
func (m *Manager) VerifSubmitHeaders(ctx context.Context, hs []*types.SignedHeader) error {
	return m.submitHeadersToDA(ctx, hs)
}
func (m *Manager) VerifCreateSignedData(ctx context.Context) ([]*types.SignedData, error) {
	return m.createSignedDataToSubmit(ctx)
}
func (m *Manager) VerifSubmitData(ctx context.Context, ds []*types.SignedData) error {
	return m.submitDataToDA(ctx, ds)
}

// VerifIsValidSignedData / VerifIsExpectedSequencer expose the two admission tests.
func (m *Manager) VerifIsValidSignedData(sd *types.SignedData) bool { return m.isValidSignedData(sd) }
func (m *Manager) VerifIsExpectedSequencer(h *types.SignedHeader) bool {
	return m.isUsingExpectedSingleSequencer(h)
}

func VerifConvertBatchDataToBytes(b [][]byte) []byte       { return convertBatchDataToBytes(b) }
func VerifBytesToBatchData(b []byte) ([][]byte, error)     { return bytesToBatchData(b) }
