//go:build verif

package block

import "sync"

// Event diversion: scheduler-driven checks build retriever.go/store.go from overlay copies in which every send into
// the sync loop's input channels first offers the event to m.verifDivertHeader / m.verifDivertData. When the harness
// has registered a diverter, the event goes into a harness-side FIFO (modelling the buffered channel) and the harness
// later delivers it into the real channel, choosing the order between the two channels itself (Go's select would pick
// at random). Without a registered diverter the original send happens.
var verifDiverts sync.Map // *Manager -> func(h *NewHeaderEvent, d *NewDataEvent) bool

func (m *Manager) VerifSetDivert(f func(h *NewHeaderEvent, d *NewDataEvent) bool) {
	verifDiverts.Store(m, f)
}
func (m *Manager) VerifClearDivert() { verifDiverts.Delete(m) }

func (m *Manager) verifDivertHeader(ev NewHeaderEvent) bool {
	if f, ok := verifDiverts.Load(m); ok {
		return f.(func(*NewHeaderEvent, *NewDataEvent) bool)(&ev, nil)
	}
	return false
}

func (m *Manager) verifDivertData(ev NewDataEvent) bool {
	if f, ok := verifDiverts.Load(m); ok {
		return f.(func(*NewHeaderEvent, *NewDataEvent) bool)(nil, &ev)
	}
	return false
}
