//go:build verif

package block

import "sync"

// Send gates: scheduler-driven checks build retriever.go/store.go from overlay copies in which every send into the
// sync loop's input channels is preceded by m.verifSendGate(<channel>), so that the harness decides when a producer
// may hand an event to the sync loop. Without a registered gate this is a no-op.
var verifSendGates sync.Map // *Manager -> func(string)

func (m *Manager) VerifSetSendGate(f func(ch string)) { verifSendGates.Store(m, f) }
func (m *Manager) VerifClearSendGate()                { verifSendGates.Delete(m) }

func (m *Manager) verifSendGate(ch string) {
	if f, ok := verifSendGates.Load(m); ok {
		f.(func(string))(ch)
	}
}
