//go:build verif

package block

import "context"

// VerifPublishBlockFunc returns the production function that is installed right now (publishBlockInternal unless a
// test seam replaced it), so that a recorder installed with VerifSetPublishBlock can wrap the real one. Expose only.
func (m *Manager) VerifPublishBlockFunc() func(ctx context.Context) error { return m.publishBlock }
