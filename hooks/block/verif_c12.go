//go:build verif

package block

// VerifDataHashForEmptyTxs exposes the constant the node uses as "data hash of a block without transactions" (C12 golden vector).
func VerifDataHashForEmptyTxs() []byte { return append([]byte(nil), dataHashForEmptyTxs...) }
