//go:build verif

package block

// VerifMaxSubmitAttempts exposes the retry budget of one submitToDA call (how many attempts a DA tick makes before it
// gives the submission up until the next tick). C08 sizes its long DA outages around this number.
func VerifMaxSubmitAttempts() int { return maxSubmitAttempts }
