//go:build verif

package block

import (
	"context"
	"time"

	coresequencer "github.com/evstack/ev-node/core/sequencer"
	"github.com/evstack/ev-node/types"
)

// VerifCreateBlock exposes the proposer's own block construction (createBlock, as publishBlock calls it) for a batch
// with the given transactions and time. The harness uses it to let a real aggregator build a block at the initial
// height that carries transactions (publishBlock itself always finds the pre-saved empty genesis block there).
func (m *Manager) VerifCreateBlock(ctx context.Context, height uint64, lastSignature *types.Signature, lastHeaderHash types.Hash, txs [][]byte, at time.Time) (*types.SignedHeader, *types.Data, error) {
	return m.createBlock(ctx, height, lastSignature, lastHeaderHash, &BatchData{Batch: &coresequencer.Batch{Transactions: txs}, Time: at})
}
