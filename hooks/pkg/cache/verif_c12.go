//go:build verif

package cache

// VerifC12Dump copies the three maps of the cache out (C12 compares a cache before SaveToDisk and after LoadFromDisk).
// Item keys are uint64 heights or string hashes, exactly as stored.
func (c *Cache[T]) VerifC12Dump() (items map[any]*T, hashes map[string]bool, daIncluded map[string]uint64) {
	items = map[any]*T{}
	hashes = map[string]bool{}
	daIncluded = map[string]uint64{}
	c.items.Range(func(k, v any) bool {
		if p, ok := v.(*T); ok {
			items[k] = p
		}
		return true
	})
	c.hashes.Range(func(k, v any) bool {
		if s, ok := k.(string); ok {
			if b, ok := v.(bool); ok {
				hashes[s] = b
			}
		}
		return true
	})
	c.daIncluded.Range(func(k, v any) bool {
		if s, ok := k.(string); ok {
			if h, ok := v.(uint64); ok {
				daIncluded[s] = h
			}
		}
		return true
	})
	return
}
