//go:build verif

package store

import (
	"fmt"
	"reflect"
	"strings"
)

// VerifMemState renders every field of the store object except the datastore handle, by reflection, so that state the
// object keeps in memory (if any is ever added) becomes part of the model checker's state key. With the code as it is
// today the store has no such state and the result is empty.
func VerifMemState(s Store) string {
	v := reflect.ValueOf(s)
	for v.Kind() == reflect.Ptr || v.Kind() == reflect.Interface {
		v = v.Elem()
	}
	if v.Kind() != reflect.Struct {
		return ""
	}
	var sb strings.Builder
	for i := 0; i < v.NumField(); i++ {
		f := v.Type().Field(i)
		if f.Type.Kind() == reflect.Interface || strings.HasSuffix(f.Type.Name(), "Mutex") {
			continue
		}
		fmt.Fprintf(&sb, "%s=%v;", f.Name, v.Field(i))
	}
	return sb.String()
}
