//go:build verif

package file

// Accessors for the verification harness (/verif). They only expose; no logic is duplicated here.

// VerifFallbackDeriveKey is the legacy (salt-less file) key derivation used by loadKeys / ExportPrivateKey.
func VerifFallbackDeriveKey(passphrase []byte, keyLen int) []byte {
	return fallbackDeriveKey(passphrase, keyLen)
}
