//go:build verif

package da

// Accessors for the verification harness (/verif, property C16). They only expose state of DummyDA.

// VerifAdvanceHeight is one tick of the height ticker without the wall clock.
func (d *DummyDA) VerifAdvanceHeight() {
	d.mu.Lock()
	d.currentHeight++
	d.mu.Unlock()
}

// VerifSnapshot returns the current height and the blobs listed per height, in order.
func (d *DummyDA) VerifSnapshot() (uint64, map[uint64][][]byte) {
	d.mu.RLock()
	defer d.mu.RUnlock()
	out := make(map[uint64][][]byte, len(d.blobsByHeight))
	for h, ids := range d.blobsByHeight {
		bs := make([][]byte, 0, len(ids))
		for _, id := range ids {
			bs = append(bs, append([]byte{}, d.blobs[string(id)]...))
		}
		out[h] = bs
	}
	return d.currentHeight, out
}
