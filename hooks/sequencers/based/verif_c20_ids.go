//go:build verif

package based

// VerifPendingView exposes the in-memory carry-over queue itself (groups of transactions with their DA ids), without
// copying, for read-only use: the C20 check compares the queue of a restarted sequencer with the queue of the
// never-restarted one (transactions AND ids) before it merges the two. It exposes state only; no logic.
func (s *Sequencer) VerifPendingView() []TxsWithTimestamp {
	return s.pendingTxs.list
}
