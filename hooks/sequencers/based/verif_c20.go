//go:build verif

package based

// VerifPendingSnapshot exposes the in-memory carry-over queue (transactions only, group by group) so that the C20
// check can put it into its canonical state key (two histories are merged only if the live queue, not just its
// persisted image, is the same). It exposes state only; no logic.
func (s *Sequencer) VerifPendingSnapshot() [][][]byte {
	out := make([][][]byte, 0, len(s.pendingTxs.list))
	for _, g := range s.pendingTxs.list {
		grp := make([][]byte, 0, len(g.Txs))
		for _, tx := range g.Txs {
			grp = append(grp, append([]byte(nil), tx...))
		}
		out = append(out, grp)
	}
	return out
}
