//go:build verif

package single

import (
	"fmt"
	"reflect"
	"strings"
	"sync"
)

// Accessors for the verification harness (/verif). They only expose; no logic is duplicated here.

var (
	verifMutexType   = reflect.TypeOf(sync.Mutex{})
	verifRWMutexType = reflect.TypeOf(sync.RWMutex{})
)

// VerifMemState renders the volatile (in-memory) part of the sequencer's batch queue: every field of BatchQueue
// except locks and interface-typed handles (the datastore), by reflection, so that fields added later are included.
// Must be called while no operation is in flight.
func (c *Sequencer) VerifMemState() string {
	v := reflect.ValueOf(c.queue).Elem()
	var sb strings.Builder
	for i := 0; i < v.NumField(); i++ {
		f := v.Type().Field(i)
		if f.Type == verifMutexType || f.Type == verifRWMutexType || f.Type.Kind() == reflect.Interface ||
			strings.HasSuffix(f.Type.Name(), "Mutex") { // also the lock shim's types when the package is built with it
			continue
		}
		fmt.Fprintf(&sb, "%s=%v;", f.Name, v.Field(i))
	}
	return sb.String()
}
