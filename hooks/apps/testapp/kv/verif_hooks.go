//go:build verif

package executor

import (
	"context"

	ds "github.com/ipfs/go-datastore"
)

// Accessors for the verification harness (/verif). They only expose; no logic is duplicated here.

// VerifNewKVExecutorOn builds an executor exactly like NewKVExecutor does, on a datastore supplied by the caller
// (NewKVExecutor can only open a badger directory). "Reopen" = a new executor on the same datastore image.
// mempoolCap <= 0 means the production capacity (txChannelBufferSize); a search that creates millions of instances
// and injects a handful of transactions passes a small capacity to avoid allocating 10000 slots each time.
func VerifNewKVExecutorOn(db ds.Batching, mempoolCap int) *KVExecutor {
	if mempoolCap <= 0 {
		mempoolCap = txChannelBufferSize
	}
	return &KVExecutor{
		db:     db,
		txChan: make(chan []byte, mempoolCap),
	}
}

// VerifStateRoot is the read-only root computation that InitChain and ExecuteTxs return.
func (k *KVExecutor) VerifStateRoot(ctx context.Context) ([]byte, error) { return k.computeStateRoot(ctx) }

// VerifMempoolLen is the number of injected transactions waiting in the mempool channel.
func (k *KVExecutor) VerifMempoolLen() int { return len(k.txChan) }
